#!/bin/bash
# Known finding C01 `order:only-through-cached-tasks` (also C03's transitive-skip clause), demonstrated with the real CLI.
#   t0 -> [t1, t3],  t1 -> [t2],  t2 (experiment) -> [t3],  t3 = run_command
# After `cond run //:t2` the experiment has a cached version.  `cond run //:t0` prunes t2 and everything below it from the
# plan, so nothing orders t1 behind t3 although t1 transitively depends on t3 and t3 IS executed in this invocation (t0 lists it):
# t1 starts before / while t3 runs, and still runs when t3 fails.
set -u
d=$(mktemp -d); cd "$d"; touch cond_config.toml
cat > COND <<'EOC'
run_command(name="t0", run="echo t0 >> $LOG", deps=[":t1", ":t3"])
run_command(name="t1", run="echo t1-start >> $LOG", deps=[":t2"])
run_experiment(name="t2", run="echo t2 >> $LOG", deps=[":t3"])
run_command(name="t3", run="echo t3-start >> $LOG; if [ -n \"$FAIL\" ]; then exit 3; fi")
EOC
export PYTHONPATH=${1:-/repo}/src LOG=$d/log
FAIL= /venv/bin/python -m conductor run //:t2 > /dev/null 2>&1
: > "$LOG"
FAIL=1 /venv/bin/python -m conductor run //:t0 > out.txt 2>&1
echo "exit status of cond run //:t0 with t3 failing: $?"
echo "execution log:"; cat "$LOG"
if grep -q t1-start "$LOG"; then echo "FINDING REPRODUCED: t1 was started although t3 (which it depends on through the cached t2) failed / had not finished"; rc=1; else echo "not reproduced"; rc=0; fi
cd /; rm -rf "$d"; exit $rc
