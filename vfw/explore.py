"""
Deviation-bounded stateless exploration (CHESS-style) of one `cond run` scenario under the virtual kernel.

A *scenario* is a JSON-able dict:
  files       {relpath: text}           COND files (cond_config.toml is written automatically)
  config      str                       cond_config.toml content
  argv        [..]                      arguments after `cond`
  cwd         relative dir to invoke from (default ".")
  behaviours  {task id: {status, launch_fail, stdout, stderr, files}}   (bytes are latin-1 strings in JSON)
  git         None | {commits, head, is_repo, dirty}
  clock       float
  index_rows  [[id, ts, commit, dirty], ..]  pre-seeded version index
  pre_tree    {relpath: text|None}
  unrelated   bool                      an unrelated child process exists

An *execution* is determined by (scenario, list of choice indices).  Every choice point offers a list of
options in canonical order with the default at index 0 and a deviation cost per option.
"""
import hashlib
import json
import os

from . import driver, fakegit, vk as vkmod


class Chooser:
    def __init__(self, prefix, strict=False):
        self.prefix = list(prefix)
        self.i = 0
        self.trace = []  # (options, chosen, costs, ctx)
        self.strict = strict

    def choose(self, options, costs, ctx=None):
        if self.i < len(self.prefix):
            c = self.prefix[self.i]
            if not (0 <= c < len(options)):
                raise vkmod.HarnessError("replay divergence: choice %d out of range at point %d (%r)"
                                         % (c, self.i, options))
        else:
            c = 0
        self.trace.append((tuple(options), c, tuple(costs), ctx))
        self.i += 1
        return c

    def choices(self):
        return [t[1] for t in self.trace]

    def cost(self, upto=None):
        tr = self.trace if upto is None else self.trace[:upto]
        return sum(t[2][t[1]] for t in tr)

    def fully_consumed(self):
        return self.i >= len(self.prefix)


def _b(x):
    if x is None:
        return b""
    if isinstance(x, bytes):
        return x
    if isinstance(x, list):
        return [_b(y) for y in x]
    return x.encode("latin-1")


def behaviours_from_json(beh):
    out = {}
    for k, v in (beh or {}).items():
        d = dict(v)
        for f in ("stdout", "stderr", "linger"):
            if f in d and d[f] is not None:
                d[f] = _b(d[f])
        if "files" in d:
            d["files"] = {p: _b(c) for p, c in d["files"].items()}
        if "writes" in d:
            d["writes"] = [(w, _b(c)) for w, c in d["writes"]]
        out[k] = d
    return out


def git_from_json(g):
    if g is None:
        return fakegit.FakeGit(is_repo=False)
    return fakegit.FakeGit(commits=g.get("commits"), head=g.get("head"), is_repo=g.get("is_repo", True),
                           dirty=g.get("dirty", False), refs=g.get("refs"), files=g.get("files"))


class Obs:
    """Everything observable about one execution."""
    __slots__ = ("res", "vk", "root", "rows", "choices", "trace", "cost", "scn")


class Hang(Exception):
    """The command blocked (outside any kernel call the virtual kernel schedules) until the watchdog let the virtual
    children die: with well-behaved long-running tasks it would have blocked for as long as they run."""


def execute(scn, prefix=(), keep_root=False, tracer=None, strict=False, name="proj", allow_unconsumed=False, timeout=10):
    files = scn["files"]
    root = driver.fresh_project(files, name=name, config=scn.get("config", ""),
                                index_rows=[tuple(r) for r in scn["index_rows"]] if scn.get("index_rows") is not None else None,
                                pre_tree=scn.get("pre_tree"), symlink_out=bool(scn.get("symlink_out")))
    ch = Chooser(prefix, strict=strict)
    vk = vkmod.VK(chooser=ch, behaviours=behaviours_from_json(scn.get("behaviours")), project_root=root,
                  unrelated=scn.get("unrelated", False), horizon=scn.get("horizon", 4000))
    git = git_from_json(scn.get("git"))
    clock = driver.Clock(scn.get("clock", 1_700_000_000.0))
    cwd = os.path.join(root, scn.get("cwd", "."))
    res = driver.run_cli(scn["argv"], cwd, vk=vk, git=git, clock=clock, tracer=tracer, timeout=timeout, env=scn.get("env"))
    if isinstance(res.exc, (vkmod.HarnessError,)) and not isinstance(res.exc, (vkmod.Deadlock, vkmod.Horizon)):
        raise res.exc
    if res.timed_out and res.exc is None:
        res.exc = Hang("cond blocked for %s s waiting on something only a task's exit could provide (not in a kernel call)" % timeout)
        res.exit = "EXC"
    if not ch.fully_consumed() and not allow_unconsumed and not res.timed_out:
        raise vkmod.HarnessError("replay divergence: %d of %d recorded choices were never asked for"
                                 % (len(ch.prefix) - ch.i, len(ch.prefix)))
    o = Obs()
    o.res, o.vk, o.root, o.scn = res, vk, root, scn
    o.rows = driver.read_index(os.path.join(root, "cond-out", "version_index.sqlite"))
    o.choices = ch.choices()
    o.trace = ch.trace
    o.cost = ch.cost()
    return o


def explore(scn, bound, on_execution, max_executions=None):
    """
    Enumerate every execution of `scn` whose total deviation cost is <= bound.  on_execution(obs) is called
    for each.  Returns dict(executions, capped).
    """
    stack = [((), None)]
    n = 0
    capped = False
    while stack:
        prefix, expect = stack.pop()
        if max_executions is not None and n >= max_executions:
            capped = True
            break
        obs = execute(scn, prefix)
        n += 1
        if expect is not None:
            got = _opts_hash(obs.trace[:len(prefix)])
            if got != expect:
                raise vkmod.HarnessError("replay divergence: option lists changed while replaying a prefix")
        on_execution(obs)
        tr = obs.trace
        base = 0
        costs_before = []
        for t in tr:
            costs_before.append(base)
            base += t[2][t[1]]
        for i in range(len(prefix), len(tr)):
            opts, c, costs, _ = tr[i]
            for alt in range(len(opts)):
                if alt == c:
                    continue
                if costs_before[i] + costs[alt] <= bound:
                    newp = tuple(obs.choices[:i]) + (alt,)
                    # expectation covers the option lists of the shared prefix (positions < i) and point i itself
                    stack.append((newp, _opts_hash(tr[:i + 1], upto_choice=newp)))
    return {"executions": n, "capped": capped}


def _opts_hash(trace, upto_choice=None):
    h = hashlib.blake2b(digest_size=8)
    for k, t in enumerate(trace):
        c = t[1] if upto_choice is None else upto_choice[k]
        h.update(repr((t[0], c)).encode())
    return h.digest()


def sig(obj):
    return hashlib.blake2b(json.dumps(obj, sort_keys=True, default=str).encode(), digest_size=8).hexdigest()
