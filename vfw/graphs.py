"""
Exhaustive generators for task graphs and their COND renderings.

A graph is a tuple of dep lists: g[i] = tuple of node indices that node i lists in `deps`, *in listing
order*.  Node 0 is the task handed to `cond run`.  Shapes are enumerated up to isomorphism (fixing node 0);
listing orders are enumerated separately.
"""
import itertools
import json


def _reachable(adj, src=0):
    seen, stack = set(), [src]
    while stack:
        x = stack.pop()
        if x in seen:
            continue
        seen.add(x)
        stack.extend(adj[x])
    return seen


def dag_shapes(n):
    """All rooted DAG shapes on n nodes (every node reachable from node 0), up to isomorphism fixing 0.
    Returned with deps in ascending order."""
    pairs = [(i, j) for i in range(n) for j in range(i + 1, n)]  # i depends on j (topological labelling)
    seen = set()
    out = []
    for mask in range(1 << len(pairs)):
        adj = [[] for _ in range(n)]
        for k, (i, j) in enumerate(pairs):
            if mask >> k & 1:
                adj[i].append(j)
        if len(_reachable(adj)) != n:
            continue
        canon = None
        for perm in itertools.permutations(range(1, n)):
            p = (0,) + perm
            edges = tuple(sorted((p[i], p[j]) for i in range(n) for j in adj[i]))
            if canon is None or edges < canon:
                canon = edges
        if canon in seen:
            continue
        seen.add(canon)
        out.append(tuple(tuple(a) for a in adj))
    return out


def listing_orders(shape):
    """Every assignment of a listing order to each node's dep set."""
    per_node = [list(itertools.permutations(d)) for d in shape]
    for combo in itertools.product(*per_node):
        yield tuple(combo)


def transitive_deps(g, i):
    seen, stack = set(), list(g[i])
    while stack:
        x = stack.pop()
        if x in seen:
            continue
        seen.add(x)
        stack.extend(g[x])
    return seen


def has_shared_dep(g):
    """Some node is reachable from node 0 along two different paths."""
    indeg = [0] * len(g)
    for d in g:
        for j in d:
            indeg[j] += 1
    return any(x > 1 for x in indeg)


def lit(v):
    return json.dumps(v) if not isinstance(v, bool) and v is not None else repr(v)


def pylit(v):
    if isinstance(v, float) and (v != v or v in (float("inf"), float("-inf"))):
        return 'float("%s")' % ("nan" if v != v else ("inf" if v > 0 else "-inf"))
    if isinstance(v, (bool, type(None), int, float)):
        return repr(v)
    if isinstance(v, str):
        return json.dumps(v)
    if isinstance(v, list):
        return "[" + ", ".join(pylit(x) for x in v) + "]"
    if isinstance(v, dict):
        return "{" + ", ".join("%s: %s" % (pylit(k), pylit(x)) for k, x in v.items()) + "}"
    raise TypeError(v)


def render_task(name, kind, deps, par=False, args=None, options=None, run=None):
    """kind: cmd | exp | group | combine"""
    parts = ["name=%s" % pylit(name)]
    if kind in ("cmd", "exp"):
        parts.append("run=%s" % pylit(run if run is not None else "./%s.sh" % name))
        if par:
            parts.append("parallelizable=True")
        if args:
            parts.append("args=%s" % pylit(args))
        if options:
            parts.append("options=%s" % pylit(options))
    if deps:
        parts.append("deps=%s" % pylit(list(deps)))
    fn = {"cmd": "run_command", "exp": "run_experiment", "group": "group", "combine": "combine"}[kind]
    return "%s(%s)\n" % (fn, ", ".join(parts))


def node_name(i):
    return "t%d" % i


def render_graph(g, kinds, pars=None, pkgs=None, args=None, options=None):
    """
    Render graph g into COND files.  pkgs[i] = package path of node i ("" = root).  Returns
    (files, ids) where ids[i] is the fully qualified identifier of node i.
    """
    n = len(g)
    pkgs = pkgs or [""] * n
    pars = pars or [False] * n
    ids = ["//%s:%s" % (pkgs[i], node_name(i)) for i in range(n)]
    by_pkg = {}
    for i in range(n):
        deps = []
        for j in g[i]:
            if isinstance(j, tuple) and j[0] == "dup":
                j = j[1]
                # the other spelling of a dependency that is already listed
                deps.append(ids[j] if pkgs[j] == pkgs[i] else ids[j].replace(":", "/:"))
                continue
            deps.append(":" + node_name(j) if pkgs[j] == pkgs[i] else ids[j])
        text = render_task(node_name(i), kinds[i], deps, par=pars[i],
                           args=(args or {}).get(i), options=(options or {}).get(i))
        by_pkg.setdefault(pkgs[i], []).append(text)
    files = {}
    for pkg, texts in by_pkg.items():
        files[(pkg + "/" if pkg else "") + "COND"] = "".join(texts)
    return files, ids
