"""
Reference models, written from the documentation (website/docs) and the property statements only.
Set / recursion based, independent of listing order, no code shared with Conductor.
"""


def closure(g, target=0):
    seen, stack = set(), [target]
    while stack:
        x = stack.pop()
        if x in seen:
            continue
        seen.add(x)
        stack.extend(g[x])
    return seen


def needed_set(g, cached=(), again=False, target=0):
    """Tasks that must execute: reachable from the target without passing through (or being) a task
    satisfied by a reusable cached result."""
    need, stack = set(), [target]
    while stack:
        x = stack.pop()
        if x in need:
            continue
        if not again and x in cached:
            continue
        need.add(x)
        stack.extend(g[x])
    return need


def cached_reported(g, cached=(), again=False, target=0):
    """Cached tasks that the traversal meets (candidates for a 'Using cached results' line)."""
    need = needed_set(g, cached, again, target)
    out = set()
    if not again and target in cached:
        out.add(target)
    for x in need:
        for d in g[x]:
            if not again and d in cached:
                out.add(d)
    return out


def outcomes(g, need, fails):
    """need: set of executed-candidate nodes; fails: set of nodes whose own execution fails.
    A task is skipped iff a needed direct dependency did not succeed; schedule independent."""
    res = {}

    def oc(x):
        if x in res:
            return res[x]
        r = "ok"
        for d in g[x]:
            if d in need and oc(d) != "ok":
                r = "skipped"
        if r == "ok" and x in fails:
            r = "failed"
        res[x] = r
        return r

    for x in need:
        oc(x)
    return res


def transitive_deps(g, i):
    seen, stack = set(), list(g[i])
    while stack:
        x = stack.pop()
        if x in seen:
            continue
        seen.add(x)
        stack.extend(g[x])
    return seen


# ------------------------------------------------------------------ command-line serialisation (C07)
def ser_value(v):
    if isinstance(v, bool):
        return "true" if v else "false"
    return str(v)


def cmdline(run, args, options):
    a = " ".join(ser_value(v) for v in (args or []))
    o = " ".join("--%s=%s" % (k, ser_value(v)) for k, v in (options or {}).items())
    return " ".join([run, a, o])


# ------------------------------------------------------------------ version selection (C05)
def reach(commits, h):
    seen, stack = set(), [h]
    while stack:
        x = stack.pop()
        if x in seen or x not in commits:
            continue
        seen.add(x)
        stack.extend(commits[x])
    return seen


def select_version(versions, git_mode, commits=None, head=None):
    """
    versions: list of (timestamp, commit_or_None).  git_mode: 'git' (enabled, HEAD exists) or 'nogit'
    (no repository / disabled / no commits).  Returns the selected (timestamp, commit) or None (= must run).
    """
    if not versions:
        return None
    if git_mode != "git":
        return max(versions, key=lambda v: v[0])
    anc = reach(commits, head)
    cands = [v for v in versions if v[1] is not None and v[1] in anc]
    if cands:
        def dist(v):
            return len(anc - reach(commits, v[1]))
        best = min(dist(v) for v in cands)
        return max((v for v in cands if dist(v) == best), key=lambda v: v[0])
    if all(v[1] is None for v in versions):
        return max(versions, key=lambda v: v[0])
    return None


def at_least_rerun(selected, commits, at_least):
    """--at-least C: re-run iff the selected version is absent, has no commit, or is a strict ancestor of C."""
    if selected is None or selected[1] is None:
        return True
    if selected[1] == at_least:
        return False
    return selected[1] in reach(commits, at_least)
