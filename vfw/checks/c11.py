"""C11 - archive then restore reproduces exactly the selected versions."""
import itertools
import os
import subprocess

from .. import driver, explore, fakegit, hist

ID = "C11"
LEVEL = "model_checking"
RULE = ("breadth-first exploration of command histories over a nested project (//:e1, //pkg:e2 -> e1, //pkg/sub:e3, a run_command and two "
        "combine tasks listing a shared dependency in both orders): run histories of depth <=3 (quick) / <=4 (thorough) over {all ok, "
        "e2 fails, e3 fails} with git state {none, commit A clean, commit B dirty} reach distinct project states; in every state every "
        "archive variant {all, --latest, each task T, T --latest} is taken, then restored (a) after clean and (b) after clean + a further "
        "run (project holding other versions). states = distinct canonical project states (index rows + Merkle digest of cond-out); "
        "transitions = commands executed; oracle = reference selection, rows/commit/dirty equality, tar member list, byte-identical trees "
        "(nested dirs, empty files, binary bytes, symlinks), source project unchanged by archive"
        " Plus single-task projects for every shape of task name the grammar allows (leading '-', only '-'/'_', digits), at the root and in a package."
        ' Plus all 63 non-empty index states over 3 tasks x 2 timestamps (timestamps shared between tasks, as after restores from other checkouts), and archiving from a state that holds the temporary index left by a killed archive.')
ASSUMPTIONS = [
    "the external tar is trusted (real tar is used)",
    "version ids come from the virtual clock (+10 s per run)",
]
CHUNK = 1

COND_ROOT = ('run_experiment(name="e1", run="./e1.sh", args=["a"], options={"k": 1})\n'
             'combine(name="all_a", deps=[":e1", "//pkg:c", "//pkg/sub:e3"])\n'
             'combine(name="all_b", deps=["//pkg:c", "//pkg/sub:e3", ":e1"])\n'
             'run_command(name="solo", run="./solo.sh")\ngroup(name="solos", deps=[":solo"])\n'
             # closures whose walk meets an already-visited task BEFORE an unvisited one in some deps list
             'group(name="all_c", deps=["//pkg:g2", ":e1"])\ngroup(name="all_d", deps=[":e1", "//pkg:g3", "//pkg:g2"])\n')
COND_PKG = ('run_experiment(name="e2", run="./e2.sh", deps=["//:e1"])\n'
            'run_command(name="c", run="./c.sh", deps=[":e2"])\n'
            'group(name="g2", deps=["//:e1", "//pkg/sub:e3"])\ngroup(name="g3", deps=["//pkg/sub:e3", "//:e1", ":e2"])\n')
COND_SUB = 'run_experiment(name="e3", run="./e3.sh")\ngroup(name="only", deps=[":e3"])\n'
FILES = {"COND": COND_ROOT, "pkg/COND": COND_PKG, "pkg/sub/COND": COND_SUB}
ARCHIVABLE = {"//:e1", "//pkg:e2", "//pkg/sub:e3"}
CLOSURE = {
    None: None,
    "//:all_a": {"//:e1", "//pkg:e2", "//pkg/sub:e3"},
    "//:all_b": {"//:e1", "//pkg:e2", "//pkg/sub:e3"},
    "//:all_c": {"//:e1", "//pkg/sub:e3"},
    "//:all_d": {"//:e1", "//pkg:e2", "//pkg/sub:e3"},
    "//:e1": {"//:e1"},
    "//pkg:e2": {"//:e1", "//pkg:e2"},
    "//pkg:c": {"//:e1", "//pkg:e2"},
    "//pkg/sub:e3": {"//pkg/sub:e3"},
    "//pkg/sub:only": {"//pkg/sub:e3"},
    "//:solo": set(),      # nothing archivable in the closure: must be refused, not turned into "archive everything"
    "//:solos": set(),
}
RICH = {"files": {"data/nested/deep.bin": "\x00\xff\xfe binary \n", "empty": "", "top.txt": "hello\n"},
        "dirs": ["emptydir"], "links": {"link-to-top": "top.txt"}, "stdout": "out\n\xff", "stderr": "err\n"}
OUTCOMES = {"ok": {}, "e2fails": {"//pkg:e2": {"status": 256}}, "e3fails": {"//pkg/sub:e3": {"status": 9}}}
GITS = {"nogit": None,
        "A": {"commits": {"a" * 40: []}, "head": "a" * 40, "is_repo": True, "dirty": False},
        "Bdirty": {"commits": {"a" * 40: [], "b" * 40: ["a" * 40]}, "head": "b" * 40, "is_repo": True, "dirty": True}}


def behaviours(outcome):
    b = {k: dict(RICH) for k in ARCHIVABLE}
    b["//pkg:c"] = {"files": {"c.out": "c"}}
    for k, v in OUTCOMES[outcome].items():
        b[k] = dict(b.get(k, {}), **v)
    return b


def ref_selection(rows, task, latest):
    sel = [r for r in rows if CLOSURE[task] is None or r[0] in CLOSURE[task]]
    if latest:
        best = {}
        for r in sel:
            if r[0] not in best or r[1] > best[r[0]][1]:
                best[r[0]] = r
        sel = list(best.values())
    return sorted(sel)


def vdir(row):
    ident, ts = row[0], row[1]
    path, name = ident[2:].split(":")
    return os.path.join(path, "%s.task.%d" % (name, ts))


def warmup():
    driver.mods()


def run_steps():
    return [(o, g) for o in OUTCOMES for g in GITS]


SYN_TASKS = ["//:e1", "//pkg:e2", "//pkg/sub:e3"]
SYN_TS = [100, 200]


def synthetic_items(tier):
    """All 2^6 index states over 3 tasks x 2 timestamps (timestamps shared between tasks happen after restores from other
    checkouts); each version directory holds a distinguishing file."""
    out = []
    cells = [(t, ts) for t in SYN_TASKS for ts in SYN_TS]
    for mask in range(1, 1 << len(cells)):
        sel = [list(cells[i]) for i in range(len(cells)) if mask >> i & 1]
        out.append({"synthetic": sel})
        if any(a[0] == b[0] and a[1] != b[1] for a in sel for b in sel):
            # the same rows inserted newest first: the order in which a restore of OLDER versions into a project leaves the index
            out.append({"synthetic": sel, "reversed": True})
    return out


def items(tier):
    depth = 2 if tier == "quick" else 3
    steps = run_steps()
    out = []
    for d in range(1, depth + 1):
        for h in itertools.product(range(len(steps)), repeat=d):
            if tier == "quick" and d == 2 and (h[0] + h[1]) % 2:
                continue
            if tier == "thorough" and d == 3 and (h[0] + h[1] + h[2]) % 3:
                continue
            out.append({"history": list(h)})
    # every shape of task name the grammar allows (letters, digits, '-', '_' in any position), at the root and in a package
    names = ["x", "_", "0", "a-b", "-x", "-", "--x", "-C", "--remove-files", "x-", "_-_"]
    out += [{"names": names[i:i + 3]} for i in range(0, len(names), 3)]
    return out + synthetic_items(tier)


def run_names(item, res, viol):
    import json
    T = 1_700_000_000
    for nm in item["names"]:
        for pkg in ("", "p"):
            cond = 'run_experiment(name=%s, run="./r.sh")\n' % json.dumps(nm)
            files = {"p/COND": cond, "COND": ""} if pkg else {"COND": cond}
            ident = "//%s:%s" % (pkg, nm)
            root = driver.fresh_project(files, name="c11n")
            art = {"names": [nm], "pkg": pkg}
            r = hist.run(root, ["run", ident], clock=driver.Clock(T), behaviours={ident: dict(RICH)})
            rows0 = hist.rows(root) or []
            if r.exit != 0 or len(rows0) != 1:
                viol("names:run-failed", "cond run %s exits %r with rows %s: %s" % (ident, r.exit, rows0, r.err_text[:200]), art)
                continue
            tree0 = hist.data_tree(root)
            snap = hist.snapshot(root, root + "-snap")
            for extra in ([], [ident], ["--latest"]):
                hist.restore_snapshot(snap, root)
                arch = os.path.join(root, "A.tar.gz")
                res["evals"] += 1
                res["transitions"] += 3
                res["sigs"].add(explore.sig(["names", nm, pkg, extra]))
                ra = hist.run(root, ["archive"] + extra + ["-o", arch], clock=driver.Clock(T + 1))
                if ra.exit != 0 or ra.exc is not None:
                    viol("names:archive-failed", "cond archive %s of the project whose only task is %s exits %r %r: %s"
                         % (" ".join(extra), ident, ra.exit, ra.exc, ra.err_text[:300]), art)
                    continue
                if hist.rows(root) != rows0 or hist.data_tree(root) != tree0:
                    viol("names:source-changed", "cond archive changed the source project of %s" % ident, art)
                hist.run(root, ["clean", "--force"])
                rr = hist.run(root, ["restore", arch], clock=driver.Clock(T + 2))
                if rr.exit != 0 or rr.exc is not None:
                    viol("names:restore-failed", "cond restore of the archive of %s exits %r %r: %s" % (ident, rr.exit, rr.exc, rr.err_text[:300]), art)
                    continue
                d = vdir(rows0[0])
                t1 = hist.data_tree(root)
                if sorted(hist.rows(root) or []) != sorted(rows0) or hist.subtree(t1, d) != hist.subtree(tree0, d):
                    viol("names:roundtrip-differs", "archive + restore of %s does not reproduce its version" % ident, art)
    res["sample"] = {"names": item["names"], "packages": ["", "p"]}


def apply_runs(root, history, t0=1_700_000_000):
    steps = run_steps()
    t = t0
    n = 0
    for h in history:
        o, g = steps[h]
        t += 10
        git = explore.git_from_json(GITS[g])
        hist.run(root, ["run", "//:all_a", "--again"], clock=driver.Clock(t), behaviours=behaviours(o), git=git)
        n += 1
    return t, n


def run_item(item, tier):
    res = {"evals": 0, "sigs": set(), "states": set(), "transitions": 0, "violations": [], "counters": {}, "sample": None}
    found = {}

    def viol(key, what, art):
        found.setdefault(key, (what, art))

    if "names" in item:
        run_names(item, res, viol)
        for key, (what, art) in found.items():
            res["violations"].append({"key": key, "what": what, "artefact": art})
        return res
    if "synthetic" in item:
        rows = [(tid, ts, ("a" * 40 if ts == 100 else None), 1 if ts == 100 else 0) for tid, ts in item["synthetic"]]
        if item.get("reversed"):
            rows = rows[::-1]
        pre = {}
        for tid, ts in item["synthetic"]:
            pre[os.path.join("cond-out", vdir((tid, ts)), "data")] = "%s@%d" % (tid, ts)
        root = driver.fresh_project(FILES, name="c11", index_rows=rows, pre_tree=pre)
        t, n = 1_700_000_000, 0
        item = dict(item, history=["synthetic-reversed" if item.get("reversed") else "synthetic"] + item["synthetic"])
    else:
        root = driver.fresh_project(FILES, name="c11")
        t, n = apply_runs(root, item["history"])
    res["transitions"] += n
    rows0 = hist.rows(root) or []
    tree0 = hist.data_tree(root)
    res["states"].add(explore.sig([rows0, hist.digest(tree0)]))
    snap = hist.snapshot(root, root + "-snap")
    variants = [(task, latest) for task in CLOSURE for latest in (False, True)]
    variants = [(t, l, False) for t, l in variants] + [(t, l, True) for t, l in variants if l or t in ("//pkg/sub:e3", "//:e1")]
    for task, latest, stale in variants:
        hist.restore_snapshot(snap, root)
        art = {"history": item["history"], "task": task, "latest": latest, "stale_archive_index": stale}
        if stale:
            # what an earlier `cond archive` killed with SIGKILL while tar was running leaves behind: its temporary
            # archive index (here: holding every row of the project) in cond-out
            driver.make_index(os.path.join(root, "cond-out", "version_index_archive.sqlite"), [tuple(r) for r in rows0])
        arch = os.path.join(root, ["A.tar.gz", "results-2024.tar", "snapshot", "b.tgz"][(len(str(task)) + int(latest) + int(stale)) % 4])
        # every third variant names the archive relative to the working directory (as the documentation does), from a package directory
        rel_cwd = "pkg/sub" if (len(str(task)) + int(latest)) % 3 == 0 and not stale else None   # (a depth other than that of cond-out)
        argv = ["archive"] + ([task] if task else []) + (["--latest"] if latest else []) + ["-o", os.path.relpath(arch, os.path.join(root, rel_cwd)) if rel_cwd else arch]
        res["evals"] += 1
        res["transitions"] += 1
        want = ref_selection(rows0, task, latest)
        # every fourth variant is archived from a checkout whose HEAD is NOT a descendant of the commits the versions were recorded
        # at (the user switched to another branch): what gets archived does not depend on the current commit
        sibling = explore.git_from_json({"commits": {"a" * 40: [], "b" * 40: ["a" * 40], "c" * 40: []}, "head": "c" * 40, "is_repo": True,
                                         "dirty": False}) if (len(str(task)) + 2 * int(latest)) % 4 == 1 else None
        r = hist.run(root, argv, cwd=rel_cwd or ".", clock=driver.Clock(t + 1), git=sibling)
        res["sigs"].add(explore.sig([item["history"], task, latest, stale]))
        if os.path.exists(os.path.join(root, "cond-out", "version_index_archive.sqlite")):
            if not (stale and not want):
                # (a refused archive - nothing to archive - that never got as far as its own temporary index may leave the stale
                # one of the killed archive where it is)
                viol("archive:temp-index-left", "cond archive left its temporary index in cond-out", art)
            os.unlink(os.path.join(root, "cond-out", "version_index_archive.sqlite"))
        if r.exc is not None:
            viol("archive:internal-error", "cond %s dies with %s: %s" % (" ".join(argv[:-1]), type(r.exc).__name__, r.exc), art)
            continue
        # archiving never changes the source project
        if hist.rows(root) != rows0 or hist.data_tree(root) != tree0:
            diff = sorted(set(hist.data_tree(root).items()) ^ set(tree0.items()))[:4]
            viol("archive:source-changed", "cond archive changed the source project: %s" % (diff,), art)
        if not want:
            if r.exit == 0 or os.path.exists(arch):
                viol("archive:empty-selection-archived", "nothing to archive but exit %r / archive exists" % r.exit, art)
            continue
        if r.exit != 0:
            viol("archive:failed", "cond %s exits %r: %s" % (" ".join(argv[:-1]), r.exit, r.err_text[:300]), art)
            continue
        if not os.path.isfile(arch):
            viol("archive:not-where-asked", "cond %s (from %s/) reports success but there is no archive at %s" % (" ".join(argv), rel_cwd or ".", os.path.relpath(arch, root)), art)
            continue
        members = subprocess.run(["tar", "tf", arch], capture_output=True, text=True).stdout.split()
        tops = sorted({m.rstrip("/") for m in members if m.rstrip("/") in [vdir(w) for w in want] or m.rstrip("/").endswith(".sqlite")})
        want_tops = sorted([vdir(w) for w in want] + ["version_index_archive.sqlite"])
        stray = [m for m in members if not any(m.rstrip("/") == w or m.startswith(w + "/") for w in want_tops)]
        if tops != want_tops or stray:
            viol("archive:members", "tar members %s (stray %s), expected top-level %s" % (tops, stray[:3], want_tops), art)
        with open(arch, "rb") as f:
            arch_bytes = f.read()
        for mode in ("clean", "clean+run", "clean+partial"):
            hist.restore_snapshot(snap, root)
            with open(arch, "wb") as f:
                f.write(arch_bytes)
            hist.run(root, ["clean", "--force"])
            res["transitions"] += 2
            pre_rows = []
            if mode == "clean+run":
                hist.run(root, ["run", "//:all_b"], clock=driver.Clock(t + 100), behaviours=behaviours("ok"))
                pre_rows = hist.rows(root) or []
                res["transitions"] += 1
            if mode == "clean+partial":
                # what a restore killed while copying leaves behind: a fragment of one archived version's directory (unrecorded)
                frag = os.path.join(root, "cond-out", vdir(want[0]))
                os.makedirs(frag, exist_ok=True)
                with open(os.path.join(frag, "stdout.log"), "w") as f:
                    f.write("fragment")
            pre_tree = hist.data_tree(root)
            res["evals"] += 1
            rr = hist.run(root, ["restore", arch], clock=driver.Clock(t + 200))
            a2 = dict(art, mode=mode)
            if mode == "clean+partial" and (rr.exit != 0 or rr.exc is not None):
                continue  # refusing is fine (that is C12's subject); only a *successful* restore must be exact
            if rr.exit != 0 or rr.exc is not None:
                viol("restore:failed", "cond restore exits %r %r: %s" % (rr.exit, rr.exc, rr.err_text[:300]), a2)
                continue
            rows1 = hist.rows(root) or []
            if sorted(rows1) != sorted(pre_rows + want):
                viol("restore:rows", "rows after restore %s, expected %s" % (sorted(rows1), sorted(pre_rows + want)), a2)
            tree1 = hist.data_tree(root)
            for w in want:
                d = vdir(w)
                if hist.subtree(tree1, d) != hist.subtree(tree0, d) or tree1.get(d) != ("d",):
                    viol("restore:tree-differs", "restored %s differs from the archived directory" % d, a2)
            # nothing else appears or changes (the staging directory must be gone)
            extra = {k: v for k, v in tree1.items() if k not in pre_tree and not any(k == vdir(w) or k.startswith(vdir(w) + os.sep) for w in want)
                     and not any(vdir(w).startswith(k + os.sep) for w in want)}
            if extra:
                viol("restore:extra-entries", "restore left extra entries %s" % sorted(extra)[:4], a2)
            changed = [k for k in pre_tree if tree1.get(k) != pre_tree[k] and mode != "clean+partial"]
            if changed:
                viol("restore:modified-existing", "restore modified existing entries %s" % changed[:4], a2)
            res["states"].add(explore.sig([sorted(rows1), hist.digest(tree1)]))
    res["sample"] = {"history": ([run_steps()[h] for h in item["history"]] if not str(item["history"][0]).startswith("synthetic") else item["history"]),
                     "rows": rows0[:4], "archive_variants": len(variants)}
    for key, (what, art) in found.items():
        res["violations"].append({"key": key, "what": what, "artefact": art})
    return res


def replay(artefact):
    if "names" in artefact:
        r = run_item({"names": artefact["names"]}, "quick")
        return [(v["key"], v["what"]) for v in r["violations"]]
    if artefact["history"][:1] in (["synthetic"], ["synthetic-reversed"]):
        r = run_item({"synthetic": artefact["history"][1:], "reversed": artefact["history"][0] == "synthetic-reversed"}, "quick")
        return [(v["key"], v["what"]) for v in r["violations"]]
    r = run_item({"history": artefact["history"]}, "quick")
    return [(v["key"], v["what"]) for v in r["violations"]]
