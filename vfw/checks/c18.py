"""C18 - combine() exposes each dependency's output under its name."""
import itertools
import os
import shutil

from .. import driver, explore, fakegit, hist, vk as vkmod

ID = "C18"
LEVEL = "model_checking"
RULE = ("a combine task over every non-empty ordered selection (<=3) of dependencies of every kind {run_command with output, "
        "run_command with empty output, run_experiment, group, another combine} x placement of the combine and of the dependencies in "
        "packages of depth 0-2 x cache state of the experiment x pre-existing entry {absent, Conductor link to an older version, "
        "Conductor link whose target was deleted, regular file, directory} x histories of <=3 runs (default / --again, creating new "
        "versions); a sibling task with the same dependencies shows what dependents receive in COND_DEPS. states = distinct (scenario, "
        "history prefix) project states; transitions = runs executed; oracle: entry named after the dependency resolves to exactly the "
        "directory the dependency was spawned with / had selected, none for empty outputs or groups, updated after re-runs, "
        "non-link entries reported as an error and left untouched. Extra kinds/layouts: a dependency whose output holds only hidden "
        "entries, cond-out being a symbolic link to a directory at another depth, a project path containing glob metacharacters")
ASSUMPTIONS = [
    "an experiment's output directory is never empty (Conductor writes stdout.log/stderr.log into it)",
    "a link whose target directory was removed by hand is still 'a link Conductor made' and must be updated, not crashed on",
]
CHUNK = 8
DEPK = ["dc", "dq", "de", "dg", "dk"]   # cmd, quiet cmd (empty output), experiment, group, inner combine
PKGS = ["", "p", "p/q"]


def warmup():
    driver.mods()


def project(comb_pkg, deps, dep_pkgs):
    """deps: list of kinds (distinct); -> files, ids"""
    by_pkg = {}
    ids = {}
    for k, pk in zip(deps, dep_pkgs):
        ids[k] = "//%s:%s" % (pk, k)

    def add(pkg, text):
        by_pkg.setdefault(pkg, []).append(text)

    for k, pk in zip(deps, dep_pkgs):
        if k in ("dc", "dq", "dh"):
            add(pk, 'run_command(name="%s", run="./%s.sh")\n' % (k, k))
        elif k == "de":
            add(pk, 'run_experiment(name="de", run="./de.sh")\n')
        elif k == "dg":
            add(pk, 'run_command(name="dg-inner", run="./i.sh")\ngroup(name="dg", deps=[":dg-inner"])\n')
        elif k == "dk":
            add(pk, 'run_command(name="dk-inner", run="./i.sh")\ncombine(name="dk", deps=[":dk-inner"])\n')

    def ref(k):
        return ":" + k if dict(zip(deps, dep_pkgs))[k] == comb_pkg else ids[k]

    dl = ", ".join('"%s"' % ref(k) for k in deps)
    add(comb_pkg, 'combine(name="comb", deps=[%s])\nrun_command(name="sib", run="./sib.sh", deps=[%s])\ngroup(name="top", deps=[":comb", ":sib", %s])\n' % (dl, dl, dl))
    files = {(pk + "/" if pk else "") + "COND": "".join(t) for pk, t in by_pkg.items()}
    return files, ids


def items(tier):
    out = []
    sels = []
    for r in (1, 2, 3):
        for sel in itertools.permutations(DEPK, r):
            if r == 3 and tier == "quick" and sel != tuple(sorted(sel)):
                continue
            sels.append(sel)
    for sel in sels:
        for comb_pkg in PKGS:
            pkg_choices = list(itertools.product(PKGS, repeat=len(sel)))
            if len(sel) >= 2:
                pkg_choices = [pc for pc in pkg_choices if len(set(pc)) > 1 or pc[0] == comb_pkg][:: (1 if tier == "thorough" else 3)]
            for dep_pkgs in pkg_choices:
                pres = ["absent"]
                if len(sel) == 1 and sel[0] not in ("dq", "dg"):  # entries are only made for dependencies with a non-empty output
                    pres = ["absent", "old-link", "dangling-link", "file", "dir"]
                for pre in pres:
                    for cached in ((False, True) if "de" in sel else (False,)):
                        out.append({"sel": list(sel), "comb_pkg": comb_pkg, "dep_pkgs": list(dep_pkgs), "pre": pre, "cached": cached})
    # a dependency whose output holds only hidden entries (.done, .cache/): not empty, so it gets an entry
    for sel, pks in ((["dh"], [""]), (["dh"], ["p/q"]), (["dh", "de"], ["p", ""]), (["dc", "dh"], ["", "p"]), (["dk", "dh", "dq"], ["p", "p", "p"])):
        for comb_pkg in ("", "p"):
            for cached in ((False, True) if "de" in sel else (False,)):
                out.append({"sel": sel, "comb_pkg": comb_pkg, "dep_pkgs": pks, "pre": "absent", "cached": cached})
    # unusual locations: cond-out is a symbolic link to a directory at another depth; the project path contains glob metacharacters
    for layout in ("symlink-out", "glob-path"):
        for sel, pks in ((["dc"], [""]), (["de"], ["p/q"]), (["de", "dc"], ["p", ""]), (["dk", "de"], ["", "p/q"]), (["dc", "dh", "de"], ["p", "", "p/q"])):
            for comb_pkg in PKGS:
                out.append({"sel": sel, "comb_pkg": comb_pkg, "dep_pkgs": pks, "pre": "absent", "cached": False, "layout": layout})
    # prior state "an earlier run left the dependency's output directory behind EMPTY" (a command that wrote nothing or failed before
    # writing): what counts is the directory's content when the combine runs, not when the plan is built
    for sel in sels:
        if len(sel) <= 2 and any(k in ("dc", "dk", "dh") for k in sel):
            for comb_pkg in PKGS[:2]:
                pks = [PKGS[(i + 1) % len(PKGS)] for i in range(len(sel))]
                out.append({"sel": list(sel), "comb_pkg": comb_pkg, "dep_pkgs": pks, "pre": "absent", "cached": False, "empty_dep_dirs": True})
    # special histories: the COND file is edited between two runs so that the entry NAME stays and the dependency changes package;
    # a cached experiment whose recorded version directory is gone, listed before other dependencies
    out.append({"special": "retarget"})
    out.append({"special": "missing-cached-dir"})
    # crash points of a link-updating re-run
    for sel, pk in ((["de"], [""]), (["de", "dc"], ["p", ""]), (["dk", "de"], ["", "p/q"]), (["de", "dg", "dc"], ["p", "p", "p"])):
        for comb_pkg in ("", "p"):
            out.append({"crash": True, "sel": sel, "comb_pkg": comb_pkg, "dep_pkgs": pk, "pre": "absent", "cached": False})
    return out


def crash_item(item, tier):
    """cond killed at every point of a re-run (--again) that updates the combine's links; then a plain run must leave the
    entries resolving to exactly what a sibling receives in COND_DEPS."""
    from .c06 import RunSnapshotter
    res = {"evals": 0, "sigs": set(), "states": set(), "transitions": 0, "violations": [], "counters": {}, "sample": None}
    found = {}
    sel, comb_pkg, dep_pkgs = item["sel"], item["comb_pkg"], item["dep_pkgs"]
    files, ids = project(comb_pkg, sel, dep_pkgs)
    root = driver.fresh_project(files, name="c18c")
    target = "//%s:top" % comb_pkg
    comb_out = os.path.join("cond-out", comb_pkg, "comb.task")

    def run(flags, t, tracer=None):
        vk = vkmod.VK(behaviours={}, project_root=root)
        r = driver.run_cli(["run", target] + flags, root, vk=vk, git=fakegit.NO_GIT, clock=driver.Clock(t), tracer=tracer)
        return r, vk

    run([], 1_700_000_010)
    snapdir = os.path.join(driver.scratch_root(), "c18snaps")
    tracer = RunSnapshotter(root, snapdir)
    run(["--again"], 1_700_000_020, tracer=tracer)
    res["transitions"] += 2
    res["counters"]["crash_states"] = len(tracer.snapshots)
    for i, snap in enumerate(tracer.snapshots):
        hist.restore_snapshot(snap, root)
        res["evals"] += 1
        res["transitions"] += 1
        res["states"].add(explore.sig([item, "crash", i]))
        res["sigs"].add(explore.sig([item, "crash", i]))
        art = dict(item, crash=i, at=tracer.where[i])
        r, vk = run([], 1_700_000_030)
        if r.exc is not None:
            found.setdefault("combine:crash-then-run:internal-error", ("cond killed at %s during `run --again`; the next `cond run` dies with %s: %s"
                                                                       % (tracer.where[i], type(r.exc).__name__, r.exc), art))
            continue
        if r.exit != 0:
            found.setdefault("combine:crash-then-run:failed", ("cond killed at %s; the next run exits %r: %s" % (tracer.where[i], r.exit, (r.err_text + r.out_text)[-200:]), art))
            continue
        spawns = {e[2]: e[3] for e in vk.log if e[0] == "spawn"}
        sib = spawns.get("//%s:sib" % comb_pkg)
        cdir = os.path.join(root, comb_out)
        if sib is None:
            # everything cached and the sibling is a run_command: it always runs
            found.setdefault("combine:crash-then-run:sibling-not-run", ("sibling did not run", art))
            continue
        want = sorted(os.path.realpath(p) for p in (sib["deps"] or "").split(":") if p and os.path.isdir(p) and os.listdir(p))
        got = sorted(os.path.realpath(os.path.join(cdir, x)) for x in os.listdir(cdir))
        if got != want:
            found.setdefault("combine:crash-then-run:wrong-targets", ("cond killed at %s; after the next run the combine entries resolve to %s but dependents "
                                                                      "receive %s" % (tracer.where[i], got, want), art))
    shutil.rmtree(snapdir, ignore_errors=True)
    res["sample"] = {"combine_over": sel, "history": ["run", "run --again (killed at every point)", "run"], "crash_states": len(tracer.snapshots)}
    for key, (what, a) in found.items():
        res["violations"].append({"key": key, "what": what, "artefact": a})
    return res


def special_item(item):
    res = {"evals": 0, "sigs": set(), "states": set(), "transitions": 0, "violations": [], "counters": {}, "sample": None}
    found = {}

    def run(root, target, t):
        vk = vkmod.VK(behaviours={}, project_root=root)
        r = driver.run_cli(["run", target], root, vk=vk, git=fakegit.NO_GIT, clock=driver.Clock(t))
        res["evals"] += 1
        res["transitions"] += 1
        return r, {e[2]: e[3] for e in vk.log if e[0] == "spawn"}

    def entries(root, comb_out):
        d = os.path.join(root, comb_out)
        return {x: os.path.realpath(os.path.join(d, x)) for x in sorted(os.listdir(d))} if os.path.isdir(d) else {}

    if item["special"] == "retarget":
        for kind in ("run_command", "run_experiment"):
            files = {"old/COND": '%s(name="results", run="./r.sh")\n' % kind, "new/COND": '%s(name="results", run="./r.sh")\n' % kind,
                     "COND": 'combine(name="all", deps=["//old:results"])\nrun_command(name="sib", run="./s.sh", deps=["//old:results"])\ngroup(name="top", deps=[":all", ":sib"])\n'}
            root = driver.fresh_project(files, name="c18s")
            run(root, "//:top", 1_700_000_010)
            with open(os.path.join(root, "COND"), "w") as f:
                f.write(files["COND"].replace("//old:results", "//new:results"))
            r, spawns = run(root, "//:top", 1_700_000_020)
            res["sigs"].add("retarget:" + kind)
            want = spawns.get("//new:results", {}).get("out")
            got = entries(root, "cond-out/all.task")
            if r.exit != 0 or r.exc is not None:
                found.setdefault("special:retarget:run-failed", ("second run exits %r %r: %s" % (r.exit, r.exc, r.err_text[-200:]), dict(item)))
            elif want is None or got.get("results") != os.path.realpath(want):
                found.setdefault("special:retarget:wrong-target", ("after the dependency of the combine was changed from //old:results to //new:results (%s) the entry "
                                                                   "'results' resolves to %s, the dependency wrote %s" % (kind, got.get("results"), want), dict(item)))
    else:
        files = {"COND": 'run_experiment(name="de", run="./de.sh")\nrun_command(name="dc", run="./dc.sh")\nrun_experiment(name="dx", run="./dx.sh")\n'
                         'combine(name="all", deps=[":de", ":dc", ":dx"])\nrun_command(name="sib", run="./s.sh", deps=[":de", ":dc", ":dx"])\n'
                         'group(name="top", deps=[":all", ":sib"])\n'}
        # //:de has a recorded version whose directory was removed by hand
        root = driver.fresh_project(files, name="c18s", index_rows=[("//:de", 1_600_000_000, None, 0)])
        r, spawns = run(root, "//:top", 1_700_000_010)
        res["sigs"].add("missing-cached-dir")
        got = entries(root, "cond-out/all.task")
        want = {k: os.path.realpath(spawns["//:" + k]["out"]) for k in ("dc", "dx") if "//:" + k in spawns}
        if r.exit != 0 or r.exc is not None:
            found.setdefault("special:missing-cached-dir:run-failed", ("run exits %r %r: %s" % (r.exit, r.exc, r.err_text[-200:]), dict(item)))
        elif {k: got.get(k) for k in want} != want or len(want) != 2:
            found.setdefault("special:missing-cached-dir:entries", ("a cached dependency without its directory is listed first: combine entries %s, expected entries "
                                                                    "for the dependencies that have output %s" % (got, want), dict(item)))
    res["sample"] = {"special": item["special"]}
    for key, (what, a) in found.items():
        res["violations"].append({"key": key, "what": what, "artefact": a})
    return res


def run_item(item, tier):
    if item.get("special"):
        return special_item(item)
    if item.get("crash"):
        return crash_item(item, tier)
    res = {"evals": 0, "sigs": set(), "states": set(), "transitions": 0, "violations": [], "counters": {}, "sample": None}
    found = {}
    art = dict(item)

    def viol(key, what):
        found.setdefault(key, (what, art))

    sel, comb_pkg, dep_pkgs = item["sel"], item["comb_pkg"], item["dep_pkgs"]
    files, ids = project(comb_pkg, sel, dep_pkgs)
    pre_tree = {}
    rows = None
    comb_out = os.path.join("cond-out", comb_pkg, "comb.task")
    if item["cached"]:
        pk = dict(zip(sel, dep_pkgs))["de"]
        rows = [("//%s:de" % pk, 1_600_000_000, None, 0)]
        pre_tree[os.path.join("cond-out", pk, "de.task.1600000000", "old")] = "cached"
    first = sel[0]
    first_pkg = dep_pkgs[0]
    entry = os.path.join(comb_out, first)
    if item["pre"] == "old-link":
        tgt = os.path.join("cond-out", first_pkg, first + ".task.123" if first == "de" else first + ".task-old")
        pre_tree[os.path.join(tgt, "x")] = "old"
        pre_tree[entry] = ("link", os.path.relpath(tgt, os.path.join(comb_out)))
    elif item["pre"] == "dangling-link":
        pre_tree[entry] = ("link", "../gone.task.1")
        pre_tree[os.path.join(comb_out, ".keep")] = ""
    elif item["pre"] == "file":
        pre_tree[entry] = "user data\n"
    elif item["pre"] == "dir":
        pre_tree[os.path.join(entry, "inner.txt")] = "user data\n"
    root = driver.fresh_project(files, name="c18[v2]" if item.get("layout") == "glob-path" else "c18", pre_tree=pre_tree, index_rows=rows)
    if item.get("empty_dep_dirs"):
        for k, pk in zip(sel, dep_pkgs):
            if k != "de" and k != "dg":
                os.makedirs(os.path.join(root, "cond-out", pk, k + ".task"), exist_ok=True)
    if item.get("layout") == "symlink-out":
        real_out = os.path.join(driver.scratch_root(), "c18-real", "deeper", "down", "out")
        shutil.rmtree(os.path.join(driver.scratch_root(), "c18-real"), ignore_errors=True)
        os.makedirs(real_out)
        os.symlink(real_out, os.path.join(root, "cond-out"))
    beh = {"//%s:dq" % dict(zip(sel, dep_pkgs)).get("dq", ""): {"quiet": True},
           "//%s:dh" % dict(zip(sel, dep_pkgs)).get("dh", ""): {"quiet": True, "files": {".done": b"x", ".cache/blob": b"y"}}}
    target = "//%s:top" % comb_pkg
    t = 1_700_000_000
    conflict_expected = item["pre"] in ("file", "dir") and first not in ("dq", "dg")
    for step, flags in enumerate(([], ["--again"], [])):
        t += 10
        res["evals"] += 1
        res["transitions"] += 1
        vk = vkmod.VK(behaviours=beh, project_root=root)
        before_entry = hist.tree(os.path.join(root, comb_out)).get(first) if os.path.isdir(os.path.join(root, comb_out)) else None
        r = driver.run_cli(["run", target] + flags, root, vk=vk, git=fakegit.NO_GIT, clock=driver.Clock(t))
        res["states"].add(explore.sig([item, step]))
        res["sigs"].add(explore.sig([item, step]))
        spawns = {e[2]: e[3] for e in vk.log if e[0] == "spawn"}
        if r.exc is not None:
            viol("combine:internal-error:%s" % item["pre"], "cond run died with %s: %s (step %d, %r)" % (type(r.exc).__name__, r.exc, step, item))
            break
        if conflict_expected:
            after_entry = hist.tree(os.path.join(root, comb_out)).get(first)
            if r.exit == 0 or "cannot be overwritten by the combine" not in r.out_text + r.err_text:
                viol("combine:conflict-not-reported", "pre-existing %s at %s: exit %r, output %r" % (item["pre"], entry, r.exit, (r.err_text + r.out_text)[-300:]))
            p = os.path.join(root, entry)
            if item["pre"] == "file":
                ok = os.path.isfile(p) and not os.path.islink(p) and open(p).read() == "user data\n"
            else:
                ok = os.path.isdir(p) and not os.path.islink(p) and os.path.exists(os.path.join(p, "inner.txt"))
            if not ok:
                viol("combine:conflict-overwritten", "pre-existing %s at %s was modified" % (item["pre"], entry))
            break
        if r.exit != 0:
            viol("combine:run-failed:%s" % item["pre"], "cond run exits %r: %s" % (r.exit, (r.err_text + r.out_text)[-300:]))
            break
        sib = spawns.get("//%s:sib" % comb_pkg)
        if sib is None:
            viol("combine:sibling-not-run", "sibling was not spawned")
            break
        sib_deps = [p for p in (sib["deps"] or "").split(":") if p]
        # expected directory per dep
        expect = {}
        pkmap = dict(zip(sel, dep_pkgs))
        for k in sel:
            if k == "dg":
                continue
            ident = "//%s:%s" % (pkmap[k], k)
            if ident in spawns:
                expect[k] = spawns[ident]["out"]
            elif k == "de":
                # cached: the selected (newest) version
                cands = sorted(d for d in os.listdir(os.path.join(root, "cond-out", pkmap[k])) if d.startswith("de.task."))
                recorded = {r_[1] for r_ in hist.rows(root) if r_[0] == ident}
                newest = max(recorded)
                expect[k] = os.path.join(root, "cond-out", pkmap[k], "de.task.%d" % newest)
            else:
                expect[k] = os.path.join(root, "cond-out", pkmap[k], k + ".task")
        want_sib = [expect[k] for k in sel if k in expect]
        if sib_deps != want_sib:
            viol("combine:sibling-deps", "sibling COND_DEPS %s, expected %s" % (sib_deps, want_sib))
        cdir = os.path.join(root, comb_out)
        entries = sorted(x for x in os.listdir(cdir) if x != ".keep")
        want_entries = sorted(k for k in expect if os.path.isdir(expect[k]) and os.listdir(expect[k]))
        if entries != want_entries:
            viol("combine:entries", "combine output holds %s, expected %s (step %d)" % (entries, want_entries, step))
        for k in want_entries:
            p = os.path.join(cdir, k)
            if not os.path.lexists(p):
                continue
            real = os.path.realpath(p)
            if real != os.path.realpath(expect[k]):
                viol("combine:wrong-target", "entry %s resolves to %s, but the dependency's directory in this invocation is %s (step %d)"
                     % (k, real, expect[k], step))
    res["sample"] = {"combine": "//%s:comb" % comb_pkg, "deps": ["//%s:%s" % (p, k) for k, p in zip(sel, dep_pkgs)], "pre_existing_entry": item["pre"],
                     "history": ["run", "run --again", "run"]}
    for key, (what, a) in found.items():
        res["violations"].append({"key": key, "what": what, "artefact": a})
    return res


def replay(artefact):
    r = run_item(artefact, "quick")
    return [(v["key"], v["what"]) for v in r["violations"]]
