"""C01 - dependencies finish successfully before a task starts."""
from .. import rungrid

ID = "C01"
LEVEL = "model_checking"
RULE = ("all rooted DAG shapes x dep listing orders x task kinds (run_command/run_experiment/group/combine) x parallelizable flags "
        "x --jobs 1..3 x single failing task, each explored under the virtual kernel over every completion order (deviation 0) and "
        "every exit batching/delivery deviation up to the bound (also with one of the tasks in flight failing; also with a non-task child of cond "
        "exiting; also with experiments satisfied by cached versions while a task below them runs again and fails); monitor on the kernel event log: every execution of every "
        "transitive dependency exited 0 before the dependent starts, no dependency starts after its dependent; distinct = "
        "distinct (case, terminal event order)")
ASSUMPTIONS = [
    "virtual kernel semantics validated against Linux by vfw.conformance",
    "start of a process task = its spawn at the process layer; start of a group/combine task = its 'Running' line",
    "graphs <= 3 tasks with all 4 kinds, 4 tasks with shared sub-dependencies (5 tasks in thorough), jobs <= 3",
]
CHUNK = 6


def warmup():
    rungrid.explore_case({"g": [[]], "kinds": ["cmd"], "jobs": 1}, 0, [])


def mon(s, obs):
    v = rungrid.mon_order(s)
    if s.exc is not None:
        v.append(("order:internal-error", "cond run ended with %s: %s" % (type(s.exc).__name__, s.exc)))
    return v


def items(tier):
    out = []

    def add(case, bound):
        out.append({"case": case, "bound": bound})

    # A: n<=3, all kinds, all par assignments, jobs 1..3, deviation 0 (= all completion orders)
    for g in rungrid.graphs_upto((1, 2, 3)):
        n = len(g)
        for kinds in rungrid.kind_assignments(g, "all4"):
            for jobs in (1, 2, 3):
                if jobs > max(1, n):
                    continue
                for pars in rungrid.par_assignments(kinds, jobs, "all" if jobs > 1 else "uniform"):
                    if jobs == 1 and any(pars):
                        continue
                    add({"g": g, "kinds": kinds, "pars": pars, "jobs": jobs, "fails": {}}, 0)
    # B: failing dependency, n<=3, basic kinds
    for g in rungrid.graphs_upto((2, 3)):
        n = len(g)
        for kinds in rungrid.kind_assignments(g, "basic"):
            for jobs in (1, 2):
                for pars in rungrid.par_assignments(kinds, jobs, "par" if jobs > 1 else "uniform"):
                    if jobs == 1 and any(pars):
                        continue
                    for f in range(1, n):
                        if kinds[f] in ("cmd", "exp"):
                            add({"g": g, "kinds": kinds, "pars": pars, "jobs": jobs, "fails": {str(f): ["exit", 10 + f]}}, 0)
    # C: n=4 (quick: shapes with a shared sub-dependency; thorough: all), all listing orders
    ns4 = rungrid.graphs_upto((4,), shared_only_from=4 if tier == "quick" else None)
    for g in ns4:
        for kinds in (["cmd"] * 4, ["exp"] * 4, ["combine", "exp", "cmd", "exp"]):
            for jobs in (1, 3):
                pars = [k in ("cmd", "exp") and jobs > 1 for k in kinds]
                add({"g": g, "kinds": kinds, "pars": pars, "jobs": jobs, "fails": {}}, 0)
    # D: deviations (batched exits, early exits, deferred delivery): n<=3 process tasks
    for g in rungrid.graphs_upto((2, 3)):
        for kinds in (["cmd"] * len(g), ["exp"] * len(g)):
            for jobs in (2, 3):
                pars = [True] * len(g)
                add({"g": g, "kinds": kinds, "pars": pars, "jobs": jobs, "fails": {}}, 1 if tier == "quick" else 2)
    # E: a failing task while its siblings are in flight, with batched / deferred exit delivery (one handler run reaping
    # children with different exit statuses)
    for g in list(rungrid.graphs_upto((3,))) + (list(rungrid.graphs_upto((4,), shared_only_from=4)) if tier == "thorough" else []):
        n = len(g)
        for kinds in (["cmd"] * n, ["exp"] * n):
            for jobs in (2, 3):
                for f in range(1, n):
                    for st in (["exit", 10 + f], ["signal", 9]):
                        add({"g": g, "kinds": kinds, "pars": [True] * n, "jobs": jobs, "fails": {str(f): st}}, 1 if tier == "quick" else 2)
    # F: a child of the cond process that is not a task (started by a wrapper before `exec cond`) exits - with status 0 or not -
    # at any point while a dependency that is going to fail is in flight
    for g in rungrid.graphs_upto((2, 3)):
        n = len(g)
        for jobs in (1, 2):
            for f in range(1, n):
                for un in (True, 5 << 8):
                    add({"g": g, "kinds": ["cmd"] * n, "pars": [jobs > 1] * n, "jobs": jobs, "fails": {str(f): ["exit", 10 + f]}, "unrelated": un},
                        1 if tier == "quick" else 2)
    # G: cache states - some experiments are satisfied by a recorded version (their operations are pruned from the plan) while a
    # task they depend on runs again and fails / runs in parallel: the remaining edges must still order and guard everything
    import itertools as _it
    for g in list(rungrid.graphs_upto((3,))) + list(rungrid.graphs_upto((4,), shared_only_from=4)):
        n = len(g)
        for kinds in _it.product(("cmd", "exp"), repeat=n):
            exps = [i for i in range(1, n) if kinds[i] == "exp"]
            cmds = [i for i in range(1, n) if kinds[i] == "cmd"]
            if not exps or not cmds:
                continue
            if n == 4 and tier == "quick" and (len(exps) != 1 or sum(len(d) for d in g) > 5):
                continue
            for r in range(1, len(exps) + 1):
                for cached in _it.combinations(exps, r):
                    for f in cmds:
                        for jobs in (1, 2):
                            add({"g": g, "kinds": list(kinds), "pars": [jobs > 1] * n, "jobs": jobs, "fails": {str(f): ["exit", 3]},
                                 "cached": list(cached), "empty_index": True}, 0)
                    add({"g": g, "kinds": list(kinds), "pars": [True] * n, "jobs": 2, "fails": {}, "cached": list(cached), "empty_index": True}, 0)
    if tier == "thorough":
        for g in rungrid.graphs_upto((5,)):
            out.append({"case": {"g": g, "kinds": ["cmd"] * 5, "pars": [True, True, False, True, True], "jobs": 2, "fails": {}}, "bound": 0})
        for g in rungrid.graphs_upto((3,)):
            for kinds in rungrid.kind_assignments(g, "all4"):
                if any(k in ("cmd", "exp") for k in kinds):
                    out.append({"case": {"g": g, "kinds": kinds, "pars": [k in ("cmd", "exp") for k in kinds], "jobs": 2, "fails": {}}, "bound": 1})
        for g in rungrid.graphs_upto((4,)):
            add({"g": g, "kinds": ["cmd"] * 4, "pars": [True] * 4, "jobs": 3, "fails": {}}, 1)
        for g in rungrid.graphs_upto((5,), shared_only_from=5):
            for kinds in (["cmd"] * 5, ["exp", "cmd", "exp", "cmd", "exp"]):
                add({"g": g, "kinds": kinds, "pars": [True] * 5, "jobs": 3, "fails": {}}, 0)
    for case in rungrid.conformance_cases(tier, kindsets=(["cmd"] * 3, ["exp"] * 3, ["combine", "exp", "cmd"], ["group", "cmd", "exp"])):
        out.append({"case": case, "bound": 0, "conform": True})
    return out


def run_item(item, tier):
    return rungrid.explore_case(item["case"], item["bound"], [mon], max_exec=200000, conform=bool(item.get("conform")))


def replay(artefact):
    return rungrid.replay_case(artefact, [mon])
