"""C04 - parallelism limits: --jobs bound, exclusive sequential tasks, distinct slots."""
from .. import rungrid

ID = "C04"
LEVEL = "model_checking"
RULE = ("all rooted DAG shapes n<=4 (wide shapes up to 5 in thorough) x every parallelizable assignment x kinds (incl. group/combine "
        "between parallel waves) x JOBS 1..3 (4), explored under the virtual kernel over all completion interleavings (slots are "
        "recycled in completion order) plus deviations for n<=3; invariant evaluated at every spawn/sync-start against the set of "
        "live processes: |live|<=JOBS, non-parallelizable exclusive, distinct COND_SLOT in [0,JOBS), COND_SLOT unset iff not "
        "parallelizable or JOBS=1; distinct = distinct (case, terminal event order)"
        ' Launch failures and non-zero exits of one task among parallel siblings are included (slot bookkeeping on the failure path).')
ASSUMPTIONS = [
    "mixed parallelizable/sequential graphs with one failing task: all 3-task graphs and the 4-task graphs with <= 4 edges (all in thorough)",
    "a process is live from its spawn until its exit at the (virtual) kernel, not until Conductor notices",
    "group/combine tasks are 'not marked parallelizable': they must not start while any process is live",
]
CHUNK = 6


def warmup():
    rungrid.explore_case({"g": [[]], "kinds": ["cmd"], "jobs": 1}, 0, [])


def mon(s, obs):
    v = rungrid.mon_parallel(s)
    if s.exc is not None and not (s.case.get("fails") and type(s.exc).__name__ in ("TaskFailed", "TaskNonZeroExit")):
        v.append(("par:internal-error", "cond run ended with %s: %s" % (type(s.exc).__name__, s.exc)))
    return v


def items(tier):
    out = []
    ns = (1, 2, 3, 4)
    for g in rungrid.graphs_upto(ns, orders=False):
        n = len(g)
        kindsets = [k for k in rungrid.kind_assignments(g, "proc")] if n <= 3 else [["cmd"] * n, ["exp"] * n, ["cmd", "exp"] * 2]
        if n >= 2:
            kindsets.append(["combine"] + ["exp"] * (n - 1))
        if n >= 3:
            for mid in range(1, n):
                if g[mid]:
                    ks = ["cmd"] * n
                    ks[mid] = "group"
                    kindsets.append(ks)
                    ks = ["exp"] * n
                    ks[mid] = "combine"
                    kindsets.append(ks)
        for kinds in kindsets:
            for jobs in ((1, 2, 3) if tier == "quick" else (1, 2, 3, 4)):
                for pars in rungrid.par_assignments(kinds, jobs, "all"):
                    bound = 1 if (n <= 3 and jobs > 1 and all(pars[i] or kinds[i] not in ("cmd", "exp") for i in range(n))) else 0
                    if tier == "thorough" and n <= 3 and jobs > 1:
                        bound = 2 if n <= 2 else 1
                    out.append({"case": {"g": g, "kinds": kinds, "pars": pars, "jobs": jobs, "fails": {}, "force_j": True},
                                "bound": bound})
    # cond started from inside a parallel task of another project: COND_SLOT is already in its environment
    for g in rungrid.graphs_upto((1, 2, 3), orders=False):
        n = len(g)
        for kinds in (["cmd"] * n, ["exp"] * n):
            for jobs in (1, 2):
                for pars in rungrid.par_assignments(kinds, jobs, "all"):
                    out.append({"case": {"g": g, "kinds": kinds, "pars": pars, "jobs": jobs, "fails": {}, "force_j": True, "outer_env": True}, "bound": 0})
    # every 5-task shape x every parallelizable assignment (sequential tasks becoming ready while parallel ones run)
    for g in rungrid.graphs_upto((5,), orders=False):
        for pars in rungrid.par_assignments(["cmd"] * 5, 2, "all"):
            if 0 < sum(pars) < 5:
                out.append({"case": {"g": g, "kinds": ["cmd"] * 5, "pars": pars, "jobs": 2, "fails": {}}, "bound": 0})
    # a group / combine in the middle of 5-task graphs of sequential tasks (a sync op dequeued ahead of several ready sequential ops)
    for g in rungrid.graphs_upto((5,), orders=False):
        for mid in range(1, 5):
            if not g[mid]:
                continue
            for kind in ("group", "combine"):
                kinds = ["cmd"] * 5
                kinds[mid] = kind
                for jobs in (1, 2):
                    out.append({"case": {"g": g, "kinds": kinds, "pars": [False] * 5, "jobs": jobs, "fails": {}, "force_j": True}, "bound": 0})
    # a task that cannot be launched among parallel siblings (slot bookkeeping on the failure path)
    for g in ([[1, 2, 3, 4], [], [], [], []], [[1, 2, 3], [], [], []], [[1, 2], [3, 4], [3, 4], [], []]):
        n = len(g)
        for failing in range(1, n):
            for kinds in (["cmd"] * n, ["exp"] * n):
                for jobs in (2, 3):
                    for fk in (["launch"], ["exit", 3]):
                        out.append({"case": {"g": g, "kinds": kinds, "pars": [True] * n, "jobs": jobs, "fails": {str(failing): fk}}, "bound": 0})
    # a failing / unlaunchable / skipped task in a MIX of parallelizable and sequential tasks: every graph on 3-4 tasks, every
    # assignment of the flags, every single failing process task (slot and token bookkeeping when a dequeued op never gets in flight)
    import itertools as _it
    for g in rungrid.graphs_upto((3, 4)):
        n = len(g)
        if n == 4 and tier == "quick" and sum(len(d) for d in g) > 4:
            continue
        for pars in _it.product((False, True), repeat=n):
            if not any(pars) or all(pars):
                continue
            for failing in range(1, n):
                for fk in (["exit", 3], ["mkdir"], ["execfail"]):
                    out.append({"case": {"g": g, "kinds": ["cmd"] * n, "pars": list(pars), "jobs": 2, "fails": {str(failing): fk}}, "bound": 0})
    # a failing task while a slot is free, then several tasks becoming ready at once (the free list after a failure)
    for g, failing in (([[1, 2, 3, 4], [5], [5], [5], [], []], 4), ([[1, 2, 3, 4], [5], [5], [5], [], []], 5), ([[1, 2, 3], [4], [4], [4], []], 4),
                       ([[1, 2, 3, 4, 5], [6], [6], [6], [6], [], []], 5)):
        n = len(g)
        for jobs in (3, 4):
            for kinds in (["cmd"] * n, ["group"] + ["exp"] * (n - 1)):
                out.append({"case": {"g": g, "kinds": kinds, "pars": [k != "group" for k in kinds], "jobs": jobs, "fails": {str(failing): ["exit", 3]}}, "bound": 0})
    # the same flags given through run_experiment_group instances (every assignment for 2-4 instances)
    import itertools as _it2
    for k in (2, 3, 4):
        for flags in _it2.product((False, True), repeat=k):
            for jobs in (2, 3):
                out.append({"case": {"g": [list(range(1, k + 1))] + [[] for _ in range(k)], "kinds": ["combine"] + ["exp"] * k,
                                     "pars": [False] + list(flags), "jobs": jobs, "as_group": True, "fails": {}}, "bound": 0})
    # wide shapes: antichain under a root, n = 5 (root + 4 leaves), and two-level fans
    wide = [[[1, 2, 3, 4], [], [], [], []], [[1, 2], [3, 4], [3, 4], [], []], [[1, 2, 3], [4], [4], [4], []]]
    for g in wide:
        for jobs in ((2, 3) if tier == "quick" else (2, 3, 4)):
            for pars in ([True] * 5, [False, True, True, True, True], [True, True, False, True, True]):
                for kinds in (["cmd"] * 5, ["combine", "exp", "exp", "exp", "exp"]):
                    p = [pars[i] and kinds[i] != "combine" for i in range(5)]
                    out.append({"case": {"g": g, "kinds": kinds, "pars": p, "jobs": jobs, "fails": {}}, "bound": 0})
    for case in rungrid.conformance_cases(tier, kindsets=(["cmd"] * 3, ["exp", "cmd", "exp"])):
        out.append({"case": case, "bound": 0, "conform": True})
    return out


def run_item(item, tier):
    return rungrid.explore_case(item["case"], item["bound"], [mon], max_exec=200000, conform=bool(item.get("conform")))


def replay(artefact):
    return rungrid.replay_case(artefact, [mon])
