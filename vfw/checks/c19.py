"""C19 - run_experiment_group is exactly its documented expansion."""
import itertools
import os
import pathlib

from .. import driver, explore, fakegit, graphs, vk as vkmod

ID = "C19"
LEVEL = "translation_validation"
RULE = ("every run_experiment_group definition with 0..3 instances x chain_experiments x group deps {none, one, two incl. another "
        "package} x per-instance args/options/parallelizable (2 values each) x name clashes (instance=instance, instance=group, "
        "instance=other task) x malformed members x per-instance args/options of the wrong shape (tuples, strings, dicts, ranges, None, "
        "pair lists, nested values) x instances constructed positionally; an independent expander emits the explicit run_experiment/combine COND text the "
        "documentation prescribes; both forms are loaded through the real TaskIndex and the task graphs compared (identifiers, types, "
        "ordered deps, run, args, options, flags; accept/reject agreement), and for <=2 instances both forms are executed under the "
        "virtual kernel and spawn traces, Conductor output and resulting cond-out trees compared. programs = group definitions; "
        "distinct = distinct definition text"
        ' Two-file cases: a group depending on a group in another COND file with the same instance names.')
ASSUMPTIONS = [
    "the expansion is the one shown in website/docs/task-types/run-experiment-group.md (deps of instance i = group deps + previous instance when chained)",
    "execution comparison uses the canonical schedule (the property does not quantify over schedules)",
]
CHUNK = 16

ARGS = [[], ["x", 1]]
OPTS = [{}, {"t": 2}]
PARS = [False, True]
DEPS = [None, [":base"], [":base", "//p:other"]]
SUPPORT = 'run_command(name="base", run="./base.sh")\nrun_command(name="sib", run="./sib.sh", deps=[":base"])\n'
SUPPORT_P = 'run_experiment(name="other", run="./other.sh")\n'


def _lit(v):
    """pylit, except that {"__raw__": src} stands for the Python expression src (values of the wrong type)."""
    if isinstance(v, dict) and set(v) == {"__raw__"}:
        return v["__raw__"]
    return graphs.pylit(v)


def group_src(name, run, insts, chain, deps, raw_insts=None):
    if raw_insts is None:
        parts = []
        for (nm, a, o, p) in insts:
            kw = ["name=%s" % graphs.pylit(nm)]
            if a:
                kw.append("args=%s" % _lit(a))
            if o:
                kw.append("options=%s" % _lit(o))
            if p:
                kw.append("parallelizable=True")
            parts.append("ExperimentInstance(%s)" % ", ".join(kw))
        raw_insts = "[%s]" % ", ".join(parts)
    kw = ["name=%s" % graphs.pylit(name), "run=%s" % graphs.pylit(run), "experiments=%s" % raw_insts]
    if chain is not None:
        kw.append("chain_experiments=%r" % chain)
    if deps is not None:
        kw.append("deps=%s" % graphs.pylit(deps))
    return "run_experiment_group(%s)\n" % ", ".join(kw)


def expand_src(name, run, insts, chain, deps):
    """The documented expansion, as explicit COND text."""
    out = []
    prev = None
    for (nm, a, o, p) in insts:
        d = list(deps or [])
        if chain and prev is not None:
            d = d + [":" + prev]
        kw = ["name=%s" % graphs.pylit(nm), "run=%s" % graphs.pylit(run), "parallelizable=%r" % bool(p),
              "args=%s" % _lit(a), "options=%s" % _lit(o), "deps=%s" % graphs.pylit(d)]
        out.append("run_experiment(%s)\n" % ", ".join(kw))
        prev = nm
    out.append("combine(name=%s, deps=%s)\n" % (graphs.pylit(name), graphs.pylit([":" + i[0] for i in insts])))
    return "".join(out)


def gen(tier):
    for k in range(0, 5 if tier == "thorough" else 4):
        per = list(itertools.product(ARGS, OPTS, PARS))
        for combo in itertools.product(per, repeat=k):
            insts = [("e%d" % i, a, o, p) for i, (a, o, p) in enumerate(combo)]
            for chain in (None, False, True):
                if chain is None and k > 1:
                    continue
                for deps in DEPS:
                    if k == 3 and tier == "quick" and deps == DEPS[1]:
                        continue
                    if k == 4 and (deps == DEPS[1] or chain is False):
                        continue
                    yield {"tag": "k%d" % k, "insts": insts, "chain": chain, "deps": deps, "run": k <= 2}
    # name clashes / malformed members (accept-reject agreement)
    base = ("e0", [], {}, False)
    clashes = [
        [("e0", [], {}, False), ("e0", ["x", 1], {}, False)],
        [("g", [], {}, False)],
        [("base", [], {}, False)],
        [("e0", [], {}, False), ("sib", [], {}, True)],
        [("a b", [], {}, False)],
        [("e0", [], {}, False), ("", [], {}, False)],
    ]
    for insts in clashes:
        for chain in (False, True):
            yield {"tag": "clash", "insts": insts, "chain": chain, "deps": [":base"], "run": False}
    # names that merely resemble each other (prefix / substring / suffix of the group's name, of each other): no clash
    for gname, inames in (("base-vs-new", ["base", "new"]), ("sweep-1-2", ["1", "2", "sweep-1"]), ("g", ["g-1", "gg"]), ("ab", ["a", "b"])):
        for chain in (False, True):
            yield {"tag": "similar-names", "gname": gname, "insts": [(nm, [], {"i": k}, False) for k, nm in enumerate(inames)], "chain": chain,
                   "deps": [":base"], "run": True}
    # two groups in different COND files (one depending on the other) whose instances have the same names
    for k in (1, 2):
        for chain in (False, True):
            yield {"tag": "twofiles", "insts": [("e%d" % i, [], {"t": i}, False) for i in range(k)], "chain": chain, "deps": ["//q:g"],
                   "run": True, "second_group": True}
    # `experiments` is declared Iterable: generators / iterators / map objects must behave like the list
    for k in (1, 2, 3):
        for form in ("iter", "gen", "tuple"):
            for chain in (False, True):
                yield {"tag": "iterable-%s" % form, "insts": [("e%d" % i, ["x", i], {}, bool(i % 2)) for i in range(k)], "chain": chain,
                       "deps": [":base"], "run": k <= 2, "form": form}
    # per-instance args / options of the wrong shape: the explicit run_experiment decides (it rejects non-lists / non-dicts)
    for raw in ('("x", 1)', '"ab"', '{"x": 1}', "range(2)", "None", "5", "iter([1])", '{"x"}', "[[1]]", "[None]"):
        for pos in (0, 1):
            insts = [("e0", [], {}, False), ("e1", ["y"], {}, False)]
            insts[pos] = (insts[pos][0], {"__raw__": raw}, {}, False)
            yield {"tag": "inst-args", "insts": insts, "chain": bool(pos), "deps": [":base"], "run": True}
    for raw in ('[("k", 1)]', '(("k", 1),)', "None", "5", '"ab"', "[]", '{"k": [1]}', '{"k": None}', '{1: "v"}'):
        for pos in (0, 1):
            insts = [("e0", [], {}, False), ("e1", [], {"t": 2}, False)]
            insts[pos] = (insts[pos][0], [], {"__raw__": raw}, False)
            yield {"tag": "inst-options", "insts": insts, "chain": bool(pos), "deps": [":base"], "run": True}
    # ExperimentInstance built positionally: the documented field order is (name, args, options, parallelizable)
    pos = [
        ('[ExperimentInstance("e0", ["x", 1], {"t": 2}, True)]', [("e0", ["x", 1], {"t": 2}, True)]),
        ('[ExperimentInstance("e0", ["x", 1]), ExperimentInstance("e1", [], {"t": 2})]', [("e0", ["x", 1], {}, False), ("e1", [], {"t": 2}, False)]),
        ('[ExperimentInstance("e0", True)]', [("e0", {"__raw__": "True"}, {}, False)]),
        ('[ExperimentInstance("e0", {"t": 2})]', [("e0", {"__raw__": '{"t": 2}'}, {}, False)]),
        ('[ExperimentInstance("e0", [], {}, True), ExperimentInstance("e1", ["y"], {}, True)]', [("e0", [], {}, True), ("e1", ["y"], {}, True)]),
    ]
    for raw, insts in pos:
        for chain in (False, True):
            yield {"tag": "positional", "insts": insts, "raw_group_insts": raw, "chain": chain, "deps": [":base"], "run": True}
    for raw in ('["e0"]', '[("e0", [], {}, False)]', "None", "5", '[ExperimentInstance(name="e0"), None]'):
        yield {"tag": "malformed", "insts": None, "raw": raw, "chain": False, "deps": None, "run": False}


def warmup():
    driver.mods()


def items(tier):
    cases = list(gen(tier))
    return [{"cases": cases[i:i + 12]} for i in range(0, len(cases), 12)]


def load_graph(files, target="//:g"):
    from conductor.parsing.task_index import TaskIndex
    from conductor.task_identifier import TaskIdentifier as TI
    from conductor.errors import ConductorError
    root = driver.fresh_project(files, name="c19")
    idx = TaskIndex(pathlib.Path(root))
    try:
        idx.load_transitive_closure(TI.from_str(target))
    except ConductorError as ex:
        return ("rejected", type(ex).__name__)
    g = {}
    for tid, t in idx.get_all_loaded_tasks().items():
        d = {"type": type(t).__name__, "deps": [str(x) for x in t.deps]}
        if hasattr(t, "raw_run"):
            d.update(run=t.raw_run, args=t.args.serialize_cmdline(), options=t.options.serialize_cmdline(),
                     args_empty=t.args.empty(), options_empty=t.options.empty(), par=t.parallelizable)
        g[str(tid)] = d
    return ("ok", g)


def run_form(files, gname="g"):
    root = driver.fresh_project(files, name="c19")
    vk = vkmod.VK(project_root=root)
    r = driver.run_cli(["run", "//:" + gname, "-j", "2"], root, vk=vk, git=fakegit.NO_GIT, clock=driver.Clock())
    spawns = [(e[2], e[3]["argv"], e[3]["deps"], e[3]["slot"], e[3]["out"], e[3]["cwd"]) for e in vk.log if e[0] == "spawn"]
    tree = {}
    co = os.path.join(root, "cond-out")
    for d, dirs, fs in os.walk(co):
        for x in list(dirs):
            p = os.path.join(d, x)
            if os.path.islink(p):
                tree[os.path.relpath(p, co)] = "link:" + os.readlink(p)
        for x in fs:
            p = os.path.join(d, x)
            if x.endswith(".sqlite"):
                continue
            if os.path.islink(p):
                tree[os.path.relpath(p, co)] = "link:" + os.readlink(p)
            else:
                with open(p, "rb") as f:
                    tree[os.path.relpath(p, co)] = f.read().decode("latin-1")
    rows = driver.read_index(os.path.join(co, "version_index.sqlite"))
    import re
    ran = re.compile(r"\(Ran for [^)]*\)")
    return {"exit": r.exit, "exc": repr(r.exc), "out": ran.sub("(Ran for T)", r.out_text), "err": r.err_text, "spawns": spawns, "tree": tree, "rows": rows}


def run_case(case, found, res):
    if case.get("insts") is not None and case.get("form"):
        listsrc = group_src("g", "./exp.sh", case["insts"], case["chain"], case["deps"])
        inner = listsrc[listsrc.index("experiments=[") + len("experiments="):]
        depth, end = 0, 0
        for i, ch in enumerate(inner):
            depth += ch == "["
            depth -= ch == "]"
            if depth == 0:
                end = i + 1
                break
        lit = inner[:end]
        wrapped = {"iter": "iter(%s)" % lit, "gen": "(x for x in %s)" % lit, "tuple": "tuple(%s)" % lit}[case["form"]]
        gsrc = listsrc.replace("experiments=" + lit, "experiments=" + wrapped, 1)
        esrc = expand_src("g", "./exp.sh", case["insts"], bool(case["chain"]), case["deps"])
    elif case.get("insts") is not None:
        gsrc = group_src(case.get("gname", "g"), "./exp.sh", case["insts"], case["chain"], case["deps"], raw_insts=case.get("raw_group_insts"))
        esrc = expand_src(case.get("gname", "g"), "./exp.sh", case["insts"], bool(case["chain"]), case["deps"])
    else:
        gsrc = group_src("g", "./exp.sh", None, case["chain"], case["deps"], raw_insts=case["raw"])
        esrc = None
    fg = {"COND": SUPPORT + gsrc, "p/COND": SUPPORT_P}
    extra_g, extra_e = {}, {}
    if case.get("second_group"):
        # //q:g is itself a group with the same instance names
        extra_g = {"q/COND": group_src("g", "./q.sh", case["insts"], case["chain"], None)}
        extra_e = {"q/COND": expand_src("g", "./q.sh", case["insts"], bool(case["chain"]), None)}
        fg.update(extra_g)
    art = {"case": case, "group": gsrc, "explicit": esrc}

    def viol(key, what):
        found.setdefault(key, (what, art))

    res["evals"] += 1
    res["programs"] += 1
    a = load_graph(fg, target="//:" + case.get("gname", "g"))
    if esrc is None:
        if a[0] != "rejected":
            viol("malformed-accepted", "malformed experiments %s accepted" % case["raw"])
        return
    fe = {"COND": SUPPORT + esrc, "p/COND": SUPPORT_P}
    fe.update(extra_e)
    b = load_graph(fe, target="//:" + case.get("gname", "g"))
    if a[0] != b[0]:
        viol("accept-reject-disagree:%s" % case["tag"], "group form %s, explicit form %s\n%s\n%s" % (a, b[:1] + (b[1] if b[0] != "ok" else "",), gsrc, esrc))
        res["disagreements"] += 1
        return
    if a[0] == "ok" and a[1] != b[1]:
        diff = {k: (a[1].get(k), b[1].get(k)) for k in set(a[1]) | set(b[1]) if a[1].get(k) != b[1].get(k)}
        viol("graph-differs:%s" % case["tag"], "loaded task graphs differ: %r\n%s\n%s" % (diff, gsrc, esrc))
        res["disagreements"] += 1
        return
    if a[0] == "ok" and case["run"]:
        res["evals"] += 2
        ra, rb = run_form(fg, case.get("gname", "g")), run_form(fe, case.get("gname", "g"))
        for k in ("exit", "exc", "spawns", "rows", "out", "err", "tree"):
            if ra[k] != rb[k]:
                viol("execution-differs:%s:%s" % (k, case["tag"]), "%s differs between group and explicit form: %r vs %r\n%s" % (k, ra[k], rb[k], gsrc))
                res["disagreements"] += 1
                break
        else:
            if ra["exit"] != 0:
                viol("execution-failed", "group form exits %r: %s" % (ra["exit"], ra["err"]))


def run_item(item, tier):
    res = {"evals": 0, "sigs": set(), "violations": [], "counters": {}, "sample": None, "programs": 0, "disagreements": 0}
    found = {}
    for case in item["cases"]:
        run_case(case, found, res)
        res["sigs"].add(explore.sig(case))
    c = item["cases"][0]
    if c.get("insts") is not None:
        res["sample"] = {"group": group_src("g", "./exp.sh", c["insts"], c["chain"], c["deps"]),
                         "explicit": expand_src("g", "./exp.sh", c["insts"], bool(c["chain"]), c["deps"])}
    res["counters"] = {"programs": res.pop("programs"), "disagreements_checked": res.pop("disagreements")}
    for key, (what, art) in found.items():
        res["violations"].append({"key": key, "what": what, "artefact": art})
    return res


def replay(artefact):
    found = {}
    res = {"evals": 0, "programs": 0, "disagreements": 0}
    run_case(artefact["case"], found, res)
    return [(k, w) for k, (w, a) in found.items()]
