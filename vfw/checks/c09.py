"""C09 - runs always terminate with every planned task accounted for."""
import itertools

from .. import graphs, rungrid, driver

ID = "C09"
LEVEL = "model_checking"
RULE = ("every rooted DAG shape (n<=3 quick / n<=4 thorough) x kinds x --jobs x failing-task choice, explored under the "
        "virtual kernel with all completion orders (deviation 0) and every exit batching / delivery point up to the "
        "deviation bound; a case is distinct+non-trivial per distinct terminal observation (order of starts, exits, "
        "reaper identity, outcome lines)"
        ' An unrelated child of the cond process (exit 0 / exit 5 / killed) is added to every small case, also with failing tasks. The self-pipe read() has an entry phase (lost-wakeup window) and a blocked phase.')
ASSUMPTIONS = [
    "virtual kernel models Linux waitpid/SIGCHLD/getpgid semantics (bound to the real kernel by vfw.conformance)",
    "CPython delivers a pending signal at the latest right after the C call during which it arrived",
    "children exit only when the environment chooses; SIGTERM kills a child immediately",
    "CPython 3.12 Popen lifecycle code runs unmodified (only _execute_child and the waitpid binding are virtual)",
]
CHUNK = 2


def warmup():
    rungrid.explore_case({"g": [[]], "kinds": ["cmd"], "jobs": 1}, 0, [])


def mon(s, obs):
    if s.case.get("stop_early"):
        # --stop-early: which tasks get an outcome is C03's business; here only "the run terminates normally and leaves nothing running"
        v = []
        if s.exc is not None:
            kind = type(s.exc).__name__
            v.append(("term:%s" % kind.lower(), "cond run --stop-early did not terminate normally: %s: %s" % (kind, s.exc)))
            return v
        stillrun = [p.key for p in obs.vk.procs.values() if p.state == "run" and not p.unrelated]
        if stillrun:
            v.append(("term:returned-with-running", "cond run --stop-early returned while %s were still running" % stillrun))
        return v
    return rungrid.mon_termination(s, obs)


def _cases(tier):
    ns = (1, 2, 3) if tier == "quick" else (1, 2, 3, 4)
    for n in ns:
        for shape in graphs.dag_shapes(n):
            orders = [shape] if n < 3 else list(graphs.listing_orders(shape))
            for g in orders:
                kindsets = [["cmd"] * n, ["exp"] * n]
                if n >= 2:
                    kindsets.append(["combine"] + ["exp"] * (n - 1))
                for kinds in kindsets:
                    for jobs in (1, 2, 3):
                        if jobs > n and jobs > 1:
                            continue
                        pars = [kinds[i] in ("cmd", "exp") and jobs > 1 for i in range(n)]
                        failsets = [{}]
                        if n >= 2:
                            failsets.append({str(n - 1): ["exit", 10 + n - 1]})
                            failsets.append({"1": ["signal", 9]})
                        for fails in failsets:
                            yield {"g": [list(d) for d in g], "kinds": kinds, "pars": pars, "jobs": jobs,
                                   "fails": fails}


def items(tier):
    out = []
    for case in _cases(tier):
        n = len(case["g"])
        if tier == "quick":
            bound = 3 if n <= 2 else 2
        else:
            bound = 4 if n <= 2 else (3 if n == 3 else 2)
        out.append({"case": case, "bound": bound})
        if n <= 3 and (case["jobs"] >= 2 or n == 1):
            # an unrelated child (exit 0 / exit 5 / killed) whose exit is reaped by Conductor's handler at any point
            for st in (True, 5 << 8, 9):
                out.append({"case": dict(case, unrelated=st), "bound": 1 if n > 1 else 2})
    for g in ([[1, 2, 3, 4], [], [], [], []], [[1, 2, 3], [], [], []]):
        n = len(g)
        for failing in range(1, n):
            for jobs in (2, 3):
                for kinds in (["cmd"] * n, ["exp"] * n):
                    out.append({"case": {"g": g, "kinds": kinds, "pars": [True] * n, "jobs": jobs, "fails": {str(failing): ["launch"]}}, "bound": 1})
                    out.append({"case": {"g": g, "kinds": kinds, "pars": [True] * n, "jobs": jobs, "fails": {str(failing): ["execfail"]}}, "bound": 1})
    # experiments whose declared arguments / options are unusual floats (inf, -inf, 1e308): every task still gets its outcome
    for g in ([[1], []], [[1, 2], [], []], [[1], [2], []]):
        n = len(g)
        for val in (float("inf"), float("-inf"), 1e308, -0.0):
            for jobs in (1, 2):
                out.append({"case": {"g": g, "kinds": ["exp"] * n, "pars": [jobs > 1] * n, "jobs": jobs, "fails": {},
                                     "args": {str(n - 1): [val]}, "options": {"0": {"lr": val}}}, "bound": 0})
    # one failing task in every 4-task graph (5 in thorough), every listing order: skipped tasks with several dependencies, some of
    # them still pending when the skip happens
    for g in rungrid.graphs_upto((4,) if tier == "quick" else (4, 5)):
        n = len(g)
        for failing in range(1, n):
            for jobs, pars in ((1, [False] * n), (2, [True] * n)):
                if n == 5 and jobs == 1 and failing % 2:
                    continue
                out.append({"case": {"g": g, "kinds": ["cmd"] * n, "pars": pars, "jobs": jobs, "fails": {str(failing): ["exit", 3]}}, "bound": 0})
    # every 4- and 5-task graph in every listing order, all completion orders
    for g in rungrid.graphs_upto((4, 5)):
        out.append({"case": {"g": g, "kinds": ["cmd"] * len(g), "pars": [True] * len(g), "jobs": 2, "fails": {}}, "bound": 0})
    # some dependencies satisfied by cached versions (their operations are pruned from the plan)
    for g in rungrid.graphs_upto((2, 3)):
        n = len(g)
        for kinds in (["cmd"] + ["exp"] * (n - 1), ["exp"] * n, ["combine"] + ["exp"] * (n - 1)):
            exps = [i for i in range(1, n) if kinds[i] == "exp"]
            for r in range(1, len(exps) + 1):
                for sub_ in __import__("itertools").combinations(exps, r):
                    for jobs in (1, 2):
                        out.append({"case": {"g": g, "kinds": kinds, "pars": [k != "combine" and jobs > 1 for k in kinds], "jobs": jobs,
                                             "fails": {}, "cached": list(sub_)}, "bound": 1 if jobs > 1 else 0})
    # --stop-early with parallel siblings: the first failure is handled while other tasks are running, have exited but are not yet
    # reaped, or were reaped in the same batch (deviations = early / batched exits)
    for g in ([[1, 2], [], []], [[1, 2, 3], [], [], []], [[1, 2], [3], [], []]):
        n = len(g)
        for failing in range(1, n):
            for jobs in (2, 3):
                for fk in (["exit", 3], ["signal", 9]):
                    out.append({"case": {"g": g, "kinds": ["cmd"] * n, "pars": [True] * n, "jobs": jobs, "fails": {str(failing): fk},
                                         "stop_early": True}, "bound": 2 if n == 3 or tier == "thorough" else 1})
    out.append({"kind": "kernel-semantics"})
    for case in rungrid.conformance_cases(tier):
        out.append({"case": case, "bound": 0, "conform": True})
    return out


def run_item(item, tier):
    if item.get("kind") == "kernel-semantics":
        from .. import conformance
        rules = conformance.kernel_semantics()
        bad = [r for r in rules if not r[1]]
        if bad:
            raise RuntimeError("virtual kernel rule contradicted by Linux: %r" % (bad,))
        return {"evals": len(rules), "traces_validated": len(rules), "sigs": {"rule:" + r[0] for r in rules},
                "states": set(), "transitions": 0, "violations": [], "counters": {"kernel_rules_checked": len(rules)},
                "sample": {"kernel_rules": [r[0] for r in rules]}}
    return rungrid.explore_case(item["case"], item["bound"], [mon],
                                max_exec=60000 if tier == "quick" else 400000, conform=bool(item.get("conform")))


def replay(artefact):
    return rungrid.replay_case(artefact, [mon])
