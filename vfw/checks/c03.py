"""C03 - failures skip dependents, spare independents, and decide the exit status."""
import itertools

from .. import rungrid

ID = "C03"
LEVEL = "model_checking"
RULE = ("all rooted DAG shapes n<=3 (4 thorough) x listing orders x kinds x every non-empty subset of failing tasks with failure "
        "kind in {exit code, killed by signal, launch OSError before the fork, exec failure after the fork (a child that exits 255, reaped by the SIGCHLD handler or by Popen), combine conflict} x jobs 1..3 x {default, --stop-early}, explored "
        "under the virtual kernel over all completion orders (+1 deviation for small graphs); oracle = reference outcome function "
        "(skipped iff a needed direct dependency did not succeed); distinct = distinct (case, terminal event order)"
        ' --stop-early is additionally explored with 3-4 parallel leaves at deviation 1 (exits delivered in a batch: a task reaped but not yet processed when the failure is observed).')
ASSUMPTIONS = [
    "under --stop-early only the statement's three clauses are checked (nothing starts after the first observed failure, running "
    "tasks get SIGTERM, exit != 0 naming the failed task); the skipped list is not compared there",
    "the first failure is 'observed' when Conductor prints the failure line",
    "launch failure = OSError(EAGAIN) from the fork/exec step of Popen",
]
CHUNK = 8


def warmup():
    rungrid.explore_case({"g": [[]], "kinds": ["cmd"], "jobs": 1}, 0, [])


def mon(s, obs):
    return rungrid.mon_failure(s)


def failure_kinds(i, kinds, g):
    if kinds[i] == "cmd":
        return [["exit", 10 + i], ["signal", 9], ["launch"], ["mkdir"], ["execfail"]]
    if kinds[i] == "exp":
        return [["exit", 10 + i], ["signal", 9], ["launch"], ["execfail"]]
    if kinds[i] == "combine" and any(kinds[j] in ("cmd", "exp", "combine") for j in g[i]):
        return [["conflict"]]
    return []


def items(tier):
    out = []
    ns = (1, 2, 3) if tier == "quick" else (1, 2, 3, 4)
    for g in rungrid.graphs_upto(ns):
        n = len(g)
        kindsets = list(rungrid.kind_assignments(g, "basic"))
        for kinds in kindsets:
            nodes = range(n)
            for r in range(1, n + 1):
                if n == 4 and r > 2:
                    continue
                for subset in itertools.combinations(nodes, r):
                    opts = [failure_kinds(i, kinds, g) for i in subset]
                    if any(not o for o in opts):
                        continue
                    # all kinds for single failures; for multiple failures rotate kinds
                    if r == 1:
                        combos = [(k,) for k in opts[0]]
                    else:
                        combos = [tuple(o[(idx + shift) % len(o)] for idx, o in enumerate(opts)) for shift in range(2)]
                    for combo in combos:
                        fails = {str(i): k for i, k in zip(subset, combo)}
                        for jobs in (1, 2, 3):
                            if jobs > n:
                                continue
                            pars = [kinds[i] in ("cmd", "exp") and jobs > 1 for i in range(n)]
                            for stop in (False, True):
                                bound = 1 if (n <= 2 or (tier == "thorough" and n == 3 and r == 1)) else 0
                                out.append({"case": {"g": g, "kinds": kinds, "pars": pars, "jobs": jobs, "fails": fails,
                                                     "stop_early": stop}, "bound": bound})
    # one failing task in every 4-task graph, every listing order (shared dependencies reached over paths of different length)
    for g in rungrid.graphs_upto((4,)):
        for failing in range(1, 4):
            for jobs, pars in ((1, [False] * 4), (2, [True] * 4)):
                for fk in (["exit", 3], ["signal", 9]):
                    if fk[0] == "signal" and jobs == 2:
                        continue
                    out.append({"case": {"g": g, "kinds": ["cmd"] * 4, "pars": pars, "jobs": jobs, "fails": {str(failing): fk}, "stop_early": False}, "bound": 0})
    # default mode: one of several parallel leaves cannot be launched / fails, the others must all still run
    for g in ([[1, 2, 3, 4], [], [], [], []], [[1, 2, 3, 4, 5], [], [], [], [], []]):
        n = len(g)
        for failing in range(1, n):
            for fk in (["launch"], ["exit", 3], ["mkdir"], ["execfail"]):
                for jobs in (2, 3):
                    for kinds in (["cmd"] * n, ["group"] + ["exp"] * (n - 1)):
                        if fk == ["mkdir"] and kinds[failing] != "cmd":
                            continue
                        out.append({"case": {"g": g, "kinds": kinds, "pars": [k != "group" for k in kinds], "jobs": jobs,
                                             "fails": {str(failing): fk}}, "bound": 0})
    # --stop-early with several tasks in flight and exits arriving in a batch (one is reaped but not yet processed)
    for g in ([[1, 2, 3], [], [], []], [[1, 2, 3, 4], [], [], [], []]):
        n = len(g)
        for failing in range(1, n):
            for fk in (["exit", 3], ["signal", 9], ["launch"], ["mkdir"], ["execfail"]):
                for kinds in (["cmd"] * n, ["group"] + ["exp"] * (n - 1)):
                    if fk == ["mkdir"] and kinds[failing] != "cmd":
                        continue
                    out.append({"case": {"g": g, "kinds": kinds, "pars": [k != "group" for k in kinds], "jobs": n - 1,
                                         "fails": {str(failing): fk}, "stop_early": True}, "bound": 1 if fk[0] in ("exit", "signal") else 0})
    for case in rungrid.conformance_cases(tier, kindsets=(["cmd"] * 3, ["exp"] * 3, ["combine", "exp", "exp"])):
        out.append({"case": case, "bound": 0, "conform": True})
    return out


def run_item(item, tier):
    return rungrid.explore_case(item["case"], item["bound"], [mon], max_exec=100000, conform=bool(item.get("conform")))


def replay(artefact):
    return rungrid.replay_case(artefact, [mon])
