"""C13 - gc removes exactly the unrecorded experiment outputs."""
import itertools
import os

from .. import driver, explore, fakegit, hist
from .c20 import ref_name

ID = "C13"
LEVEL = "exploration"
RULE = ("(a) every cond-out tree built from a grammar: all subsets of 11 entry kinds at the root package (recorded/unrecorded "
        "experiment outputs, several versions of one task, run_command/combine outputs containing nested look-alikes, stray files "
        "named like outputs, plain directories, empty packages, look-alike names x.task.05 / x.task. / .task.3, restore staging "
        "leftovers) combined with all subsets of 6 entry kinds in a nested package (two variants each of the other level), each followed "
        "by `cond gc`, `cond gc --dry-run` and `cond gc -v`; (b) every state reachable by histories of <=3 commands over {run ok, run "
        "failing, run with failing dependency, archive+clean+restore} followed by the three gc forms; oracle = independent expectation "
        "(delete directories named <ident>.task.<positive int> that are not inside a task output directory and have no committed row; "
        "everything else byte-identical; dry-run deletes nothing and prints exactly that set); for the nested-package grid and the "
        "histories, `cond gc -v` is also started from inside each directory it is about to delete. non-trivial = tree containing at least "
        "one task-like entry; distinct = distinct tree/history")
ASSUMPTIONS = [
    "symlinked directories and look-alike parents that contain task-like children are outside the alphabet (the statement does not decide them)",
    "gc is invoked from the project root or from a directory it deletes here; the other working directories are C17",
]
CHUNK = 16

# entry kinds: (id, {relpath: content|None}, rows)
ROOT_ENTRIES = [
    ("rec5", {"x.task.5/data": "r5", "x.task.5/copied/dep.task.3/data": "copy of a dependency's output", "x.task.5/y.task.7/f": "nested"}, [("//:x", 5)]),
    ("unrec6", {"x.task.6/data": "u6"}, []),
    ("unrec50", {"x.task.50/stdout.log": ""}, []),
    ("rec15", {"x.task.15/data": "r15"}, [("//:x", 15)]),
    ("cmdnested", {"c.task/y.task.7/data": "nested", "c.task/out": "o"}, []),
    ("strayfile", {"z.task.8": "i am a file"}, []),
    ("plain", {"plain/notes.txt": "n", "plain/w.task.9/data": "w"}, []),
    ("emptypkg", {"emptypkg": None}, []),
    ("lookalikes", {"x.task.05/data": "a", "x.task./data": "b", ".task.3/data": "c", "x.task.0/data": "d", "x.task.5x/data": "e"}, []),
    ("staging", {"archive-tmp/x.task.9/data": "s", "archive.tmp/x.task.9/data": "s2", "archive.tmp/p/y.task.3/data": "s3"}, []),
    ("otherrec", {"y-2.task.7/data": "y", "y-2.task.8/deep/er/file": "z"}, [("//:y-2", 7)]),
    # packages whose names merely contain "task": multitask-2 ~ "mult" + ?task? + 2, subtask ~ "su" + ?task
    ("taskish-pkgs", {"multitask-2/train.task.4/data": "rec", "multitask-2/flaky.task.5/data": "unrec", "multitask-2/prep.task/out": "cmd",
                      "subtask/fails.task.6/data": "unrec2", "my_task_1/e.task.3/data": "rec3"},
     [("//multitask-2:train", 4), ("//my_task_1:e", 3)]),
]
SUB_ENTRIES = [
    ("p_rec5", {"p/x.task.5/data": "pr5"}, [("//p:x", 5)]),
    ("p_unrec5same", {"p/q/x.task.5/data": "pq5"}, []),       # same name+ts as a recorded one, different package
    ("p_unrec6", {"p/x.task.6/args.json": "[]"}, []),
    ("p_combine", {"p/c.task/x.task.5/data": "inner"}, []),
    ("p_q_rec", {"p/q/e.task.3/data": "q3"}, [("//p/q:e", 3)]),
    ("p_file", {"p/q/x.task.7": "file"}, []),
]


def is_exp_dir(name):
    if ".task." not in name:
        return None
    n, _, ts = name.partition(".task.")
    if not ref_name(n) or not ts.isdigit() or ts[0] == "0":
        return None
    return n, int(ts)


def is_task_dir(name):
    return name.endswith(".task") and ref_name(name[:-5])


def expected_deletions(cond_out, rowset):
    dele = []

    def walk(d, pkg):
        for e in sorted(os.listdir(d)):
            p = os.path.join(d, e)
            if os.path.islink(p) or not os.path.isdir(p):
                continue
            ex = is_exp_dir(e)
            if ex is not None:
                if ("//%s:%s" % ("/".join(pkg), ex[0]), ex[1]) not in rowset:
                    dele.append(os.path.relpath(p, cond_out))
                continue
            if is_task_dir(e):
                continue
            walk(p, pkg + [e])

    walk(cond_out, [])
    return sorted(dele)


def warmup():
    driver.mods()


def build(entries):
    files, rows = {}, []
    for _, f, r in entries:
        for k, v in f.items():
            files[os.path.join("cond-out", k)] = v
        rows += [(i, ts, None, 0) for i, ts in r]
    return files, rows


def items(tier):
    out = []
    subsA = [SUB_ENTRIES[0], SUB_ENTRIES[2], SUB_ENTRIES[3]]
    batch = []
    nR = len(ROOT_ENTRIES)
    for mask in range(1 << nR):
        ids = [i for i in range(nR) if mask >> i & 1]
        for variant in (0, 1):
            if tier == "quick" and variant == 1 and mask % 4 != 3:
                continue
            batch.append({"root": ids, "sub": [0, 2, 3] if variant else []})
            if len(batch) >= 40:
                out.append({"kind": "trees", "trees": batch})
                batch = []
    nS = len(SUB_ENTRIES)
    for mask in range(1 << nS):
        ids = [i for i in range(nS) if mask >> i & 1]
        for rootv in ([], [0, 1], [0, 1, 4, 9], list(range(nR))):
            batch.append({"root": rootv, "sub": ids, "cwds": True})
            if len(batch) >= 40:
                out.append({"kind": "trees", "trees": batch})
                batch = []
    if batch:
        out.append({"kind": "trees", "trees": batch})
    # (b) reachable states
    alphabet = ["ok", "fail", "depfail", "roundtrip"]
    depth = 3 if tier == "quick" else 4
    for d in range(1, depth + 1):
        for h in itertools.product(alphabet, repeat=d):
            out.append({"kind": "history", "history": list(h)})
    return out


HCOND = ('run_experiment(name="e1", run="./e1.sh")\nrun_experiment(name="e2", run="./e2.sh", deps=[":e1"])\n'
         'run_command(name="c", run="./c.sh", deps=[":e2"])\n')
HCOND_P = 'run_experiment(name="e3", run="./e3.sh", deps=["//:e1"])\ncombine(name="all", deps=[":e3", "//:c"])\n'


def apply_history(history):
    root = driver.fresh_project({"COND": HCOND, "p/COND": HCOND_P}, name="c13h")
    clock = 1_700_000_000
    for step in history:
        clock += 7
        ck = driver.Clock(clock)
        if step == "ok":
            hist.run(root, ["run", "//p:all", "--again"], clock=ck)
        elif step == "fail":
            hist.run(root, ["run", "//p:all", "--again"], clock=ck, behaviours={"//p:e3": {"status": 256}})
        elif step == "depfail":
            hist.run(root, ["run", "//p:all", "--again"], clock=ck, behaviours={"//:e1": {"status": 9}})
        elif step == "roundtrip":
            arch = os.path.join(root, "arch.tar.gz")
            if os.path.exists(arch):
                os.unlink(arch)
            r = hist.run(root, ["archive", "-o", arch], clock=ck)
            if r.exit == 0:
                hist.run(root, ["clean", "--force"], clock=ck)
                hist.run(root, ["restore", arch], clock=ck)
    return root


def check_gc(root, label, res, viol, art, cwds=False):
    co = os.path.join(root, "cond-out")
    rowset = {(r[0], r[1]) for r in (hist.rows(root) or [])}
    want = expected_deletions(co, rowset)
    snap = hist.snapshot(root, root + "-snap")
    before = hist.data_tree(root)
    before_rows = hist.rows(root)
    for flags in (["--dry-run"], ["-v"], [], ["-n", "-v"]):
        hist.restore_snapshot(snap, root)
        res["evals"] += 1
        r = hist.run(root, ["gc"] + flags)
        after = hist.data_tree(root)
        tag = "+".join(flags) or "plain"
        if r.exit != 0 or r.exc is not None:
            viol("gc:error:%s" % tag, "cond gc %s exits %r %r: %s" % (flags, r.exit, r.exc, r.err_text[:300]), art)
            continue
        if hist.rows(root) != before_rows:
            viol("gc:rows-changed", "gc changed the version index", art)
        deleted = sorted({k for k in before if k not in after and before[k][0] == "d" and os.path.dirname(k) + "/" != ""
                          and not any(k.startswith(o + os.sep) for o in before if o not in after and o != k and before[o][0] == "d")})
        changed = sorted(k for k in after if k in before and after[k] != before[k]) + sorted(k for k in after if k not in before)
        lines = [l for l in r.out_text.splitlines() if l.strip()]
        if "--dry-run" in flags or "-n" in flags:
            if after != before:
                viol("gc:dry-run-modified", "gc --dry-run changed the tree: %s" % sorted(set(before) ^ set(after))[:5], art)
            want_lines = sorted("Would delete " + os.path.join("cond-out", w) for w in want)
            if sorted(lines) != want_lines:
                viol("gc:dry-run-listing", "gc --dry-run printed %s, expected %s" % (sorted(lines), want_lines), art)
        else:
            if deleted != want:
                extra = sorted(set(deleted) - set(want))
                missing = sorted(set(want) - set(deleted))
                key = "gc:deleted-too-much" if extra else "gc:not-deleted"
                viol(key, "gc deleted %s; expected %s (extra %s, missing %s)" % (deleted, want, extra, missing), art)
            else:
                # everything outside the deleted directories is byte-identical
                rest_before = {k: v for k, v in before.items() if not any(k == w or k.startswith(w + os.sep) for w in want)}
                if rest_before != after:
                    viol("gc:collateral", "gc modified entries it must not touch: %s" % sorted(set(rest_before.items()) ^ set(after.items()))[:4], art)
            if "-v" in flags:
                want_lines = sorted("Deleting " + os.path.join("cond-out", w) for w in want)
                if sorted(lines) != want_lines:
                    viol("gc:verbose-listing", "gc -v printed %s, expected %s" % (sorted(lines), want_lines), art)
    if cwds:
        # the same collection started from inside each directory it is going to delete (a user reading a failed run's logs)
        for w in want:
            hist.restore_snapshot(snap, root)
            res["evals"] += 1
            r = hist.run(root, ["gc", "-v"], cwd=os.path.join("cond-out", w))
            after = hist.data_tree(root)
            if r.exit != 0 or r.exc is not None:
                viol("gc:error:from-deleted-dir", "cond gc -v started in cond-out/%s exits %r %r: %s" % (w, r.exit, r.exc, r.err_text[-300:]), art)
            left = [x for x in want if x in after]
            rest_before = {k: v for k, v in before.items() if not any(k == x or k.startswith(x + os.sep) for x in want)}
            if left:
                viol("gc:not-deleted:from-deleted-dir", "cond gc -v started in cond-out/%s left %s behind" % (w, left), art)
            elif rest_before != after:
                viol("gc:collateral:from-deleted-dir", "cond gc -v started in cond-out/%s modified entries it must not touch" % w, art)
    return want


def run_item(item, tier):
    res = {"evals": 0, "sigs": set(), "violations": [], "counters": {}, "sample": None}
    found = {}

    def viol(key, what, art):
        found.setdefault(key, (what, art))

    if item["kind"] == "trees":
        for t in item["trees"]:
            entries = [ROOT_ENTRIES[i] for i in t["root"]] + [SUB_ENTRIES[i] for i in t["sub"]]
            files, rows = build(entries)
            root = driver.fresh_project({"COND": ""}, name="c13", pre_tree=files, index_rows=rows)
            want = check_gc(root, "tree", res, viol, {"kind": "tree", "tree": t}, cwds=bool(t.get("cwds")))
            if entries:
                res["sigs"].add(explore.sig(t))
            if res["sample"] is None and len(entries) >= 4:
                res["sample"] = {"entries": [e[0] for e in entries], "expected_deletions": want}
    else:
        root = apply_history(item["history"])
        want = check_gc(root, "history", res, viol, {"kind": "history", "history": item["history"]}, cwds=True)
        res["sigs"].add(explore.sig(item["history"]))
        res["sample"] = {"history": item["history"], "expected_deletions": want}
    for key, (what, art) in found.items():
        res["violations"].append({"key": key, "what": what, "artefact": art})
    return res


def replay(artefact):
    if artefact["kind"] == "tree":
        r = run_item({"kind": "trees", "trees": [artefact["tree"]]}, "quick")
    else:
        r = run_item({"kind": "history", "history": artefact["history"]}, "quick")
    return [(v["key"], v["what"]) for v in r["violations"]]
