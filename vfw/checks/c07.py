"""C07 - task environment contract and a consistent dependency snapshot."""
import itertools
import os
import pathlib

from .. import driver, explore, ref, rungrid

ID = "C07"
LEVEL = "model_checking"
RULE = ("(a) all rooted DAG shapes n<=3 x listing orders x kinds x COND files nested 0-2 directories deep (every assignment of packages "
        "{root, a, a/b}) x cache state of experiments (no version / cached) x jobs, and (b) a single task with every args list of "
        "length <=2 and every options dict with <=2 keys over the primitive alphabet {'a','a b','',0,-1,1.5,True,False}; every spawn "
        "observed at the process layer of the virtual kernel is compared with the reference contract (argv, bash, cwd, COND_NAME, "
        "COND_OUT, COND_DEPS in declared order = spawn-time COND_OUT of deps that ran / selected version of cached deps) and the "
        "support library is evaluated under exactly that environment; distinct = distinct (case, spawn contract) observations"
        ' Cached dependencies additionally come with two recorded versions at the same commit (tie broken towards the newest).')
ASSUMPTIONS = [
    "'runs under bash as run+args+options' is observed as the Popen argument vector (shell=True, executable=/bin/bash); that this "
    "vector reaches a real bash unchanged is bound by the real-process conformance items of C10/conformance",
    "cached experiments use git-less newest-version selection, a linear history or one merge history here; the selection rule itself is C05",
]
CHUNK = 8
PRIMS = ["a", "a b", "", 0, -1, 1.5, True, False, 1e-15, 0.1 + 0.2]


def warmup():
    rungrid.explore_case({"g": [[]], "kinds": ["cmd"], "jobs": 1}, 0, [])


def mon(s, obs):
    import conductor.lib.path as libpath
    v = []
    case = s.case
    root = obs.root
    pkgs = case.get("pkgs") or [""] * s.n
    args = {int(k): x for k, x in (case.get("args") or {}).items()}
    options = {int(k): x for k, x in (case.get("options") or {}).items()}
    cached = rungrid.effective_cached(case)
    spawn_out = {}
    if s.exc is not None or s.exit != 0:
        v.append(("env:run-failed", "cond run exited %r (%s): %s" % (s.exit, s.exc, obs.res.err_text[:200])))
        return v
    for e in s.unknown:
        v.append(("env:cond-name", "a process was spawned whose COND_NAME / working directory identify no task of the project: COND_NAME=%r cwd=%r argv=%r"
                  % (e[3]["name"], e[3]["cwd"], e[3]["argv"])))
    for seq, node, info, pid in s.spawns:
        name = "t%d" % node
        # argv / shell
        want_cmd = ref.cmdline("./%s.sh" % name, args.get(node), options.get(node))
        if info["argv"] != [want_cmd]:
            v.append(("env:argv", "%s spawned with argv %r, expected %r" % (s.ids[node], info["argv"], [want_cmd])))
        if not info["kw"]["shell"] or info["kw"]["executable"] != "/bin/bash":
            v.append(("env:shell", "%s not run under bash: %r" % (s.ids[node], info["kw"])))
        want_cwd = os.path.normpath(os.path.join(root, pkgs[node]))
        if os.path.normpath(info["cwd"]) != want_cwd:
            v.append(("env:cwd", "%s ran in %r, expected the COND file's directory %r" % (s.ids[node], info["cwd"], want_cwd)))
        if info["name"] != name:
            v.append(("env:cond-name", "COND_NAME=%r for %s" % (info["name"], s.ids[node])))
        out = info["out"]
        base = os.path.join(root, "cond-out", pkgs[node], name + ".task")
        if out is None or not os.path.isabs(out):
            v.append(("env:cond-out-not-absolute", "COND_OUT=%r" % (out,)))
            continue
        if info["out_listing"] is None:
            v.append(("env:cond-out-missing", "COND_OUT %r did not exist when %s started" % (out, s.ids[node])))
        if s.kinds[node] == "exp":
            ok = out.startswith(base + ".") and out[len(base) + 1:].isdigit()
        else:
            ok = os.path.normpath(out) == os.path.normpath(base)
        if not ok:
            v.append(("env:cond-out-location", "COND_OUT=%r for %s, expected %s[.<version>]" % (out, s.ids[node], base)))
        spawn_out[node] = out
        # COND_DEPS
        exp_deps = []
        for d in s.g[node]:
            dn = "t%d" % d
            if s.kinds[d] == "group":
                continue
            if d in spawn_out:
                exp_deps.append(spawn_out[d])
            elif s.kinds[d] == "exp":
                if d in cached:
                    exp_deps.append(os.path.join(root, "cond-out", pkgs[d], "%s.task.%d" % (dn, rungrid.selected_version(case, d)[0])))
                else:
                    exp_deps.append("<experiment %s neither ran nor cached>" % s.ids[d])
            else:
                exp_deps.append(os.path.join(root, "cond-out", pkgs[d], dn + ".task"))
        want_deps = ":".join(exp_deps)
        if info["deps"] != want_deps:
            v.append(("env:cond-deps", "%s got COND_DEPS=%r, expected %r" % (s.ids[node], info["deps"], want_deps)))
        # the support library under exactly this environment
        saved = dict(os.environ)
        try:
            os.environ["COND_OUT"] = out
            os.environ["COND_DEPS"] = info["deps"] if info["deps"] is not None else ""
            os.environ["COND_NAME"] = info["name"] or ""
            try:
                gop = libpath.get_output_path()
                gdp = libpath.get_deps_paths()
                iod = [libpath.in_output_dir("f"), libpath.in_output_dir(pathlib.Path("d/f"))]
            except Exception as ex:  # noqa
                v.append(("lib:exception", "support library raised %r under COND_OUT=%r COND_DEPS=%r" % (ex, out, info["deps"])))
                continue
        finally:
            os.environ.clear()
            os.environ.update(saved)
        if gop != pathlib.Path(out):
            v.append(("lib:get_output_path", "get_output_path() = %r, COND_OUT = %r" % (gop, out)))
        want_paths = [pathlib.Path(p) for p in exp_deps]
        if gdp != want_paths:
            key = "lib:get_deps_paths:empty" if not exp_deps else "lib:get_deps_paths"
            v.append((key, "get_deps_paths() = %r, expected %r (COND_DEPS=%r)" % (gdp, want_paths, info["deps"])))
        if iod != [pathlib.Path(out) / "f", pathlib.Path(out) / "d/f"]:
            v.append(("lib:in_output_dir", "in_output_dir -> %r under COND_OUT=%r" % (iod, out)))
    return v


def items(tier):
    out = []
    P = ["", "a", "a/b"]
    for g in rungrid.graphs_upto((1, 2, 3)):
        n = len(g)
        for kinds in rungrid.kind_assignments(g, "all4"):
            procs = [i for i in range(n) if kinds[i] in ("cmd", "exp")]
            if not procs:
                continue
            exps = [i for i in range(n) if kinds[i] == "exp"]
            pkgsets = list(itertools.product(P, repeat=n))
            if tier == "quick" and n == 3:
                pkgsets = [p for p in pkgsets if len(set(p)) >= 2 or p == ("", "", "")][::2]
            for pk in pkgsets:
                # combine forbids equal dep names: names are distinct (t0..tn), fine
                cache_opts = [[]] + [[e] for e in exps if e != 0] + ([[e for e in exps if e != 0]] if len([e for e in exps if e != 0]) > 1 else [])
                for cached in cache_opts:
                    jobs = 2 if n == 3 else 1
                    a = {str(i): ["x", 1] for i in procs[:1]}
                    o = {str(i): {"k": True, "j": "v w"} for i in procs[-1:]}
                    out.append({"case": {"g": g, "kinds": kinds, "pars": [k in ("cmd", "exp") and jobs > 1 for k in kinds], "jobs": jobs,
                                         "pkgs": list(pk), "cached": cached, "args": a, "options": o, "empty_index": True}, "bound": 0})
    # 4-task graphs with a shared sub-dependency, every listing order
    for g in rungrid.graphs_upto((4,), shared_only_from=4):
        for kinds in (["cmd"] * 4, ["exp"] * 4, ["combine", "exp", "cmd", "exp"]):
            out.append({"case": {"g": g, "kinds": kinds, "pars": [False] * 4, "jobs": 1}, "bound": 0})
    # cached dependency with several recorded versions: dependents receive the selected (newest at equal distance) one
    for g in rungrid.graphs_upto((2, 3)):
        n = len(g)
        for kinds in (["cmd"] + ["exp"] * (n - 1), ["combine"] + ["exp"] * (n - 1), ["exp"] * n):
            exps = [i for i in range(1, n) if kinds[i] == "exp"]
            for git in (False, True):
                for commit in ((None,) if not git else (None, "c1" * 20, "c2" * 20)):
                    out.append({"case": {"g": g, "kinds": kinds, "pars": [False] * n, "jobs": 1, "git": git,
                                         "cached": {str(e): commit for e in exps}, "two_versions": True, "empty_index": True}, "bound": 0})
    # ... and with a merge in the history, the two versions recorded on the two sides of it (closest = fewest commits in between)
    for g in rungrid.graphs_upto((2, 3)):
        n = len(g)
        for kinds in (["cmd"] + ["exp"] * (n - 1), ["exp"] * n):
            exps = [i for i in range(1, n) if kinds[i] == "exp"]
            for pair in (["f3" * 20, "a1" * 20], ["a1" * 20, "f3" * 20], ["c0" * 20, "f2" * 20], ["a1" * 20, "ee" * 20]):
                out.append({"case": {"g": g, "kinds": kinds, "pars": [False] * n, "jobs": 1, "git": True, "history": "merge",
                                     "cached": {str(e): pair for e in exps}, "empty_index": True}, "bound": 0})
    # 4-task graphs with a group somewhere below the root (a task whose only dependencies are groups has no COND_DEPS), and mixed
    # parallelizable flags (the launch order differs from the listing order)
    for g in rungrid.graphs_upto((4,)):
        for gi in (1, 2, 3):
            kinds = ["cmd"] * 4
            kinds[gi] = "group"
            out.append({"case": {"g": g, "kinds": kinds, "pars": [False] * 4, "jobs": 1}, "bound": 0})
    for g in rungrid.graphs_upto((3, 4)):
        n = len(g)
        if n == 4 and tier == "quick" and sum(len(d) for d in g) > 4:
            continue
        for pars in itertools.product((False, True), repeat=n):
            if not any(pars) or all(pars):
                continue
            for jobs in (1, 2):
                out.append({"case": {"g": g, "kinds": ["cmd"] * n, "pars": list(pars), "jobs": jobs, "force_j": True}, "bound": 0})
    # dependencies that write nothing into their output directory (a compile step working in the source tree): still listed
    for g in rungrid.graphs_upto((2, 3)):
        n = len(g)
        for kinds in (["cmd"] * n, ["cmd"] + ["exp"] * (n - 1)):
            for q in range(1, n):
                out.append({"case": {"g": g, "kinds": kinds, "pars": [False] * n, "jobs": 1, "quiet": [q]}, "bound": 0})
            out.append({"case": {"g": g, "kinds": kinds, "pars": [False] * n, "jobs": 1, "quiet": list(range(1, n))}, "bound": 0})
    # cond started with COND_* already in its environment (nested invocation): tasks must see their own values
    for g in rungrid.graphs_upto((1, 2, 3)):
        n = len(g)
        for kinds in (["cmd"] * n, ["exp"] * n, (["combine"] + ["exp"] * n)[:n]):
            for jobs in (1, 2):
                out.append({"case": {"g": g, "kinds": kinds, "pars": [k != "combine" and jobs > 1 for k in kinds], "jobs": jobs,
                                     "outer_env": True}, "bound": 0})
    # cond-out is a symbolic link (outputs kept on scratch storage): COND_OUT, COND_DEPS and the library paths are the UNRESOLVED ones
    for g in rungrid.graphs_upto((1, 2, 3)):
        n = len(g)
        for kinds in (["cmd"] * n, ["exp"] * n, (["combine"] + ["exp"] * n)[:n]):
            for pk in (["", "", ""], ["a/b", "", "a"]):
                out.append({"case": {"g": g, "kinds": kinds, "pars": [False] * n, "jobs": 1, "pkgs": pk[:n], "symlink_out": True}, "bound": 0})
    # (b) argument / option serialisation on a single task
    arglists = [[]] + [[x] for x in PRIMS] + [[x, y] for x in PRIMS for y in PRIMS]
    optdicts = [{}] + [{"k": x} for x in PRIMS] + [{"k": x, "j2": y} for x in PRIMS for y in PRIMS] + [{"j2": y, "k": x} for x in PRIMS[:3] for y in PRIMS[:3]]
    combos = [(a, o) for a in arglists for o in optdicts if (len(a) + len(o) <= 2 or tier == "thorough" or (len(a) <= 1 and len(o) <= 2) or (len(a) <= 2 and len(o) <= 1))]
    for a, o in combos:
        for kind in ("cmd", "exp"):
            out.append({"case": {"g": [[]], "kinds": [kind], "jobs": 1, "args": {"0": a} if a else {}, "options": {"0": o} if o else {}}, "bound": 0})
    # real-bash conformance: the same contract observed by real bash processes started by a real `cond run`
    for pk in (["", "", ""], ["", "a", "a/b"], ["a/b", "", "a"]):
        for g in rungrid.graphs_upto((3,)):
            for kinds in (["cmd", "exp", "cmd"], ["combine", "exp", "exp"]):
                out.append({"case": {"g": g, "kinds": kinds, "pars": [False] * 3, "jobs": 1, "pkgs": pk,
                                     "args": {"1": ["x", 1, True]}, "options": {"2": {"k": "v", "n": 1.5}}}, "bound": 0, "conform": True})
    for a, o in (([], {}), (["a", 0, -1, 1.5, True, False], {"k": "a", "z": False, "m": 0}), (["x"], {"only": True})):
        out.append({"case": {"g": [[]], "kinds": ["exp"], "jobs": 1, "args": {"0": a} if a else {}, "options": {"0": o} if o else {}},
                    "bound": 0, "conform": True})
    return out


def run_item(item, tier):
    return rungrid.explore_case(item["case"], 0, [mon], max_exec=1000, conform=bool(item.get("conform")))


def replay(artefact):
    return rungrid.replay_case(artefact, [mon])
