"""C15 - COND definitions: well-formed accepted, malformed rejected cleanly."""
import collections
import itertools
import os

from .. import driver, explore, fakegit, vk as vkmod
from .c20 import ref_name, ref_ident

ID = "C15"
LEVEL = "exploration"
RULE = ("for each documented constructor (run_command, run_experiment, group, combine, run_experiment_group/ExperimentInstance) and "
        "include(): a valid base definition and every single and every pair of deviations of its parameters from a typed alphabet "
        "(valid alternatives, missing, None, wrong scalar type, list with a wrong element, tuple, invalid names/identifiers, "
        "non-primitive values, non-string keys, unknown parameter, positional call, duplicate names, undefined/duplicate deps), plus "
        "COND / included files raising Python errors or containing non-UTF-8 bytes; each source is run through `cond run --check T` "
        "and `cond run T` in-process under the virtual kernel; oracle = independent reference schema validator + the clean-rejection "
        "contract (exit!=0, 'ERROR:' first, no traceback, names the file, zero spawns, no task output). non-trivial = source "
        "differing from the valid base; distinct = distinct source text"
        " Cross-file cases: the same relative include string used by COND files in different directories (bad second / bad first / both good with different values) and names that must not leak from one COND file's scope into another's.")
ASSUMPTIONS = [
    "COND files raising BaseException subclasses (SystemExit, KeyboardInterrupt) are outside the alphabet (arbitrary user code)",
    "the experimental, undocumented environment() constructor is not part of the documented schema and is not enumerated",
    "a run_experiment_group with no experiments never uses run/deps: ill-typed run/deps there are don't-care",
    "run_experiment_group(deps=None) is don't-care (its signature uses None as the 'no dependencies' default)",
    "malformed definitions of tasks that the command does not need are don't-care (the statement is about needed definitions)",
]
CHUNK = 24

MISSING = "<missing>"
EI = collections.namedtuple("ExperimentInstance", ["name", "args", "options", "parallelizable"], defaults=([], {}, False))


def prim(v):
    return isinstance(v, (str, bool, int, float))


def ref_identifier_ok(s, pkg, defined):
    """a dep string: ':name' or '//path:name' naming a defined task -> resolved id or None"""
    if not isinstance(s, str):
        return None
    if s.startswith(":"):
        if not ref_name(s[1:]):
            return None
        rid = "//%s:%s" % (pkg, s[1:])
    else:
        if not s.startswith("//"):
            return None
        r = ref_ident(s)
        if r[0] != "ok":
            return None if r[0] == "no" else "dontcare"
        rid = "//%s:%s" % ("/".join(r[1]), r[2])
    return rid


def ref_deps(deps, pkg, defined, unique_names=False):
    if not isinstance(deps, list):
        return False
    seen, names = set(), set()
    for d in deps:
        rid = ref_identifier_ok(d, pkg, defined)
        if rid is None:
            return False
        if rid == "dontcare":
            return None
        if rid in seen or rid not in defined:
            return False
        seen.add(rid)
        nm = rid.split(":")[1]
        if unique_names and nm in names:
            return False
        names.add(nm)
    return True


def ref_run_like(kw, pkg, defined):
    allowed = {"name", "run", "parallelizable", "args", "options", "deps"}
    if set(kw) - allowed:
        return False
    if "name" not in kw or "run" not in kw:
        return False
    if not (isinstance(kw["name"], str) and ref_name(kw["name"])):
        return False
    if not isinstance(kw["run"], str):
        return False
    if "parallelizable" in kw and type(kw["parallelizable"]) is not bool:
        return False
    if "args" in kw and not (isinstance(kw["args"], list) and all(prim(a) for a in kw["args"])):
        return False
    if "options" in kw:
        o = kw["options"]
        if not (isinstance(o, dict) and all(isinstance(k, str) for k in o) and all(prim(v) for v in o.values())):
            return False
    if "deps" in kw:
        return ref_deps(kw["deps"], pkg, defined)
    return True


def ref_group_like(kw, pkg, defined, unique_names):
    if set(kw) - {"name", "deps"}:
        return False
    if "name" not in kw or not (isinstance(kw["name"], str) and ref_name(kw["name"])):
        return False
    if "deps" in kw:
        return ref_deps(kw["deps"], pkg, defined, unique_names=unique_names)
    return True


def ref_experiment_group(kw, pkg, defined, other_names):
    if set(kw) - {"name", "run", "experiments", "chain_experiments", "deps"}:
        return False
    if "name" not in kw or "run" not in kw:
        return False
    if not (isinstance(kw["name"], str) and ref_name(kw["name"])):
        return False
    if "chain_experiments" in kw and type(kw["chain_experiments"]) is not bool:
        return False
    exps = kw.get("experiments", [])
    if not isinstance(exps, (list, tuple)):
        return False
    if len(exps) == 0:
        if not isinstance(kw["run"], str) or ("deps" in kw and ref_deps(kw["deps"], pkg, defined) is not True):
            return None  # don't care: never used
        return True
    if not isinstance(kw["run"], str):
        return False
    seen = set()
    for e in exps:
        if not isinstance(e, EI):
            return False
        ekw = {"name": e.name, "run": kw["run"], "args": e.args, "options": e.options, "parallelizable": e.parallelizable}
        r = ref_run_like(ekw, pkg, defined)
        if r is not True:
            return r
        if e.name in seen or e.name == kw["name"] or e.name in other_names:
            return False
        seen.add(e.name)
    if "deps" in kw:
        if kw["deps"] is None:
            return None  # the function signature documents None as "no dependencies": don't care
        return ref_deps(kw["deps"], pkg, defined)
    return True


# --------------------------------------------------------------------------------------------- alphabets
NAME_VALS = ['"t"', MISSING, "None", "5", '"a b"', '""', '"a\\n"', '"a.b"', '["t"]', '"t-2_x"', '"a^b"', '"a[0]"', '"a`b"', '"a\\\\b"', '"a]"']
RUN_VALS = ['"true"', MISSING, "None", "3", '["true"]', '"./x.sh --flag"']
PAR_VALS = [MISSING, "True", "False", "None", "1", '"yes"']
ARGS_VALS = [MISSING, "[]", '["a", 1, 1.5, True]', "None", '"abc"', '("a",)', "[None]", '[["x"]]', '[{"a": 1}]',
             "[2j]", '[__import__("fractions").Fraction(1, 3)]', '[b"x"]']
OPT_VALS = [MISSING, "{}", '{"k": "v", "n": 1, "f": 0.5, "b": False}', "None", '[("k", "v")]', '{1: "v"}', '{"k": None}', '{"k": [1]}',
            # numbers that are not int/float/bool are not primitive values
            '{"k": 2j}', '{"k": __import__("fractions").Fraction(1, 3)}', '{"k": __import__("decimal").Decimal("0.1")}', '{"k": b"x"}']
DEPS_VALS = [MISSING, "[]", '[":d1"]', '["//:d1", "//p:d2"]', "None", '":d1"', '(":d1",)', "[1]", '["d1"]', '[":a b"]', '{":d1"}', '{":d1": 1}', '()', '""',
             '["//:d1", "//:d1/"]', '["//p:d2", "//p/:d2"]',
             '["//x y:d1"]', '["p:d2"]', '[":d1", ":d1"]', '[":d1", "//:d1"]', '[":nope"]', '[":d1\\n"]']
COMBINE_DEPS_EXTRA = ['["//:d2", "//p:d2"]', '["//:d1", "//p:d2"]']
EXTRA_VALS = [MISSING, "foo=1"]

SUPPORT = ('run_command(name="d1", run="true")\nrun_command(name="d2", run="true")\n')
SUPPORT_P = 'run_command(name="d2", run="true")\n'
DEFINED = {"//:d1", "//:d2", "//p:d2"}


def call_src(fn, params):
    parts = []
    for k, v in params:
        if v == MISSING:
            continue
        if k == "<extra>":
            parts.append(v)
        elif k == "<positional>":
            parts.append(v)
        else:
            parts.append("%s=%s" % (k, v))
    return "%s(%s)\n" % (fn, ", ".join(parts))


def eval_kw(params):
    kw = {}
    for k, v in params:
        if v == MISSING:
            continue
        if k == "<extra>":
            kw["foo"] = 1
            continue
        kw[k] = eval(v, {"ExperimentInstance": EI})
    return kw


CONSTRUCTORS = {
    "run_command": [("name", NAME_VALS), ("run", RUN_VALS), ("parallelizable", PAR_VALS), ("args", ARGS_VALS),
                    ("options", OPT_VALS), ("deps", DEPS_VALS), ("<extra>", EXTRA_VALS)],
    "run_experiment": [("name", NAME_VALS), ("run", RUN_VALS), ("parallelizable", PAR_VALS), ("args", ARGS_VALS),
                       ("options", OPT_VALS), ("deps", DEPS_VALS), ("<extra>", EXTRA_VALS)],
    "group": [("name", NAME_VALS), ("deps", DEPS_VALS), ("<extra>", EXTRA_VALS + ['run="true"'])],
    "combine": [("name", NAME_VALS), ("deps", DEPS_VALS + COMBINE_DEPS_EXTRA), ("<extra>", EXTRA_VALS + ['run="true"'])],
}
EXP_VALS = [MISSING, "[]", '[ExperimentInstance(name="e1")]',
            '[ExperimentInstance(name="e1", args=["a"], options={"k": 1}), ExperimentInstance(name="e2", parallelizable=True)]',
            '(ExperimentInstance(name="e1"),)', "None", "5", '["e1"]', '[("e1", [], {}, False)]',
            '[ExperimentInstance(name="e1"), ExperimentInstance(name="e1")]', '[ExperimentInstance(name="t")]',
            '[ExperimentInstance(name="d1")]', '[ExperimentInstance(name="a b")]', '[ExperimentInstance(name=5)]',
            '[ExperimentInstance(name="e1", args=None)]', '[ExperimentInstance(name="e1", args=[[1]])]',
            '[ExperimentInstance(name="e1", options={1: 2})]', '[ExperimentInstance(name="e1", options={"k": None})]',
            '[ExperimentInstance(name="e1", parallelizable="x")]', '[ExperimentInstance(name="e1", parallelizable=1)]',
            '[ExperimentInstance(name="e1", args=("a",))]', '[ExperimentInstance(name="e1", args="ab")]',
            '[ExperimentInstance(name="e1", options=[("k", 1)])]', '[ExperimentInstance(name="e1", args={"x": 1})]']
CHAIN_VALS = [MISSING, "True", "False", "None", '"yes"', "1"]
CONSTRUCTORS["run_experiment_group"] = [("name", NAME_VALS), ("run", RUN_VALS), ("experiments", EXP_VALS),
                                        ("chain_experiments", CHAIN_VALS), ("deps", DEPS_VALS), ("<extra>", EXTRA_VALS)]


def reference(fn, params):
    kw = eval_kw(params)
    if fn in ("run_command", "run_experiment"):
        return ref_run_like(kw, "", DEFINED)
    if fn == "group":
        return ref_group_like(kw, "", DEFINED, False)
    if fn == "combine":
        return ref_group_like(kw, "", DEFINED, True)
    return ref_experiment_group(kw, "", DEFINED, {"d1", "d2"})


def gen_sources(tier):
    """yield dict(tag, files, target, expect in {True, False, None})"""
    for fn, plist in CONSTRUCTORS.items():
        base = [(k, vals[0] if vals[0] != MISSING else MISSING) for k, vals in plist]
        # single + pair deviations
        idxs = range(len(plist))
        combos = [()]
        combos += [((i, v),) for i in idxs for v in plist[i][1][1:]]
        for i, j in itertools.combinations(idxs, 2):
            for v in plist[i][1][1:]:
                for w in plist[j][1][1:]:
                    combos.append(((i, v), (j, w)))
        for combo in combos:
            params = list(base)
            for i, v in combo:
                params[i] = (params[i][0], v)
            kwn = dict(params).get("name")
            expect = reference(fn, params)
            # the invoked target must exist under the name we ask for
            target_name = eval(kwn) if kwn not in (MISSING,) and isinstance(eval(kwn), str) and ref_name(eval(kwn)) else "t"
            src = SUPPORT + call_src(fn, params)
            yield {"tag": fn, "files": {"COND": src, "p/COND": SUPPORT_P}, "target": "//:" + target_name,
                   "expect": expect, "nontrivial": bool(combo)}
    # positional call, duplicate names, python errors, encodings, includes
    specials = [
        ("positional", {"COND": 'run_command("t", "true")\n'}, False),
        ("positional-mixed", {"COND": 'run_command("t", run="true")\n'}, False),
        ("duplicate-name", {"COND": 'run_command(name="t", run="true")\nrun_experiment(name="t", run="true")\n'}, False),
        ("duplicate-name-group", {"COND": 'group(name="t")\ncombine(name="t")\n'}, False),
        ("syntax-error", {"COND": 'run_command(name="t", run="true"\n'}, False),
        ("name-error", {"COND": 'run_command(name="t", run=undefined_name)\n'}, False),
        ("zero-division", {"COND": 'x = 1 / 0\nrun_command(name="t", run="true")\n'}, False),
        ("import-error", {"COND": 'import no_such_module_xyz\nrun_command(name="t", run="true")\n'}, False),
        ("type-error", {"COND": 'run_command(name="t", run="a" + 1)\n'}, False),
        ("raise", {"COND": 'raise RuntimeError("boom")\n'}, False),
        # every standard exception class a COND file's own code can raise (opening a missing file, a bad key, ...)
        ("open-missing-file", {"COND": 'cfg = open("settings.json").read()\nrun_command(name="t", run="true")\n'}, False),
        ("listdir-missing", {"COND": 'import os\nfs = os.listdir("inputs")\nrun_command(name="t", run="true")\n'}, False),
        ("raise-filenotfound", {"COND": 'raise FileNotFoundError("no such thing")\n'}, False),
        ("raise-permission", {"COND": 'raise PermissionError(13, "denied", "x")\n'}, False),
        ("key-error", {"COND": 'd = {}\nd["k"]\nrun_command(name="t", run="true")\n'}, False),
        ("attribute-error", {"COND": 'None.x\nrun_command(name="t", run="true")\n'}, False),
        ("recursion-error", {"COND": 'def f():\n    return f()\nf()\nrun_command(name="t", run="true")\n'}, False),
        ("unicode-error", {"COND": 'b"\\xff".decode("utf-8")\nrun_command(name="t", run="true")\n'}, False),
        ("stop-iteration", {"COND": 'next(iter([]))\nrun_command(name="t", run="true")\n'}, False),
        ("assertion-error", {"COND": 'assert False, "no"\nrun_command(name="t", run="true")\n'}, False),
        ("os-error-in-dep-file", {"COND": 'run_command(name="t", run="true", deps=["//p:d"])\n',
                                  "p/COND": 'open("missing.txt")\nrun_command(name="d", run="true")\n'}, False),
        ("non-utf8", {"COND": b'run_command(name="t", run="true")\n# \xff\xfe\n'}, False),
        ("unknown-constructor", {"COND": 'run_thing(name="t", run="true")\n'}, False),
        ("python-ok", {"COND": 'import os\nN = [i for i in range(2)]\nrun_command(name="t", run="true", args=N)\n'}, True),
        ("missing-cond-for-dep", {"COND": 'run_command(name="t", run="true", deps=["//q:x"])\n'}, False),
        ("dep-target-missing", {"COND": 'run_command(name="u", run="true")\n'}, False),
        ("include-ok", {"COND": 'include("common.cond")\nrun_command(name="t", run="true", args=[X])\n', "common.cond": "X = 3\n"}, True),
        ("include-ok-root", {"COND": 'include("//lib/common.cond")\nrun_command(name="t", run="true", args=[X])\n', "lib/common.cond": "X = 3\n"}, True),
        ("include-missing", {"COND": 'include("nope.cond")\nrun_command(name="t", run="true")\n'}, False),
        ("include-badext", {"COND": 'include("common.py")\nrun_command(name="t", run="true")\n', "common.py": "X = 3\n"}, False),
        ("include-outside", {"COND": 'include("../outside.cond")\nrun_command(name="t", run="true")\n'}, False),
        # a sibling of the project directory whose NAME merely starts with the project directory's name is outside, too
        ("include-outside-prefix-sibling", {"COND": 'include("../c15-shared/common.cond")\nrun_command(name="t", run="true")\n'}, False),
        ("include-outside-prefix-sibling-rooted", {"COND": 'include("//../c15-shared/common.cond")\nrun_command(name="t", run="true")\n'}, False),
        ("include-outside-prefix-sibling2", {"COND": 'run_command(name="t", run="true", deps=["//p:d"])\n',
                                             "p/COND": 'include("../../c152/common.cond")\nrun_command(name="d", run="true")\n'}, False),
        ("include-defines-task", {"COND": 'include("common.cond")\nrun_command(name="t", run="true")\n',
                                  "common.cond": 'run_command(name="z", run="true")\n'}, False),
        ("include-defines-group", {"COND": 'include("common.cond")\nrun_command(name="t", run="true")\n',
                                   "common.cond": 'run_experiment_group(name="g", run="true", experiments=[ExperimentInstance(name="gi")])\n'}, False),
        ("include-defines-group-in-dep-file", {"COND": 'run_command(name="t", run="true", deps=["//p:d"])\n',
                                               "p/COND": 'include("//common.cond")\nrun_command(name="d", run="true")\n',
                                               "common.cond": 'run_experiment_group(name="g", run="true", experiments=[ExperimentInstance(name="gi", parallelizable=True)], deps=[])\n'}, False),
        ("include-includes", {"COND": 'include("common.cond")\nrun_command(name="t", run="true")\n',
                              "common.cond": 'include("other.cond")\n', "other.cond": "Y = 1\n"}, False),
        ("include-raises", {"COND": 'include("common.cond")\nrun_command(name="t", run="true")\n', "common.cond": "X = 1 / 0\n"}, False),
        ("include-syntax", {"COND": 'include("common.cond")\nrun_command(name="t", run="true")\n', "common.cond": "X = (\n"}, False),
        ("include-nonstring", {"COND": 'include(5)\nrun_command(name="t", run="true")\n'}, False),
        ("include-twice", {"COND": 'include("common.cond")\ninclude("common.cond")\nrun_command(name="t", run="true", args=[X])\n', "common.cond": "X = 3\n"}, True),
        ("include-in-dep-file", {"COND": 'run_command(name="t", run="true", deps=["//p:d"])\n',
                                 "p/COND": 'include("//common.cond")\nrun_command(name="d", run="true", args=[X])\n', "common.cond": "X = 1\n"}, True),
        ("include-bad-in-dep-file", {"COND": 'run_command(name="t", run="true", deps=["//p:d"])\n',
                                     "p/COND": 'include("//common.cond")\nrun_command(name="d", run="true")\n', "common.cond": "X = 1 / 0\n"}, False),
        ("dep-file-bad-task", {"COND": 'run_command(name="t", run="true", deps=["//p:d"])\n',
                               "p/COND": 'run_command(name="d", run=5)\n'}, False),
        ("cond-is-directory", {"COND/x": "", "p/COND": ""}, False),
        # every COND file is evaluated in its own scope: names bound by one file are not visible in another
        ("name-leak-from-dependee", {"COND": 'SHARED = 5\nrun_command(name="t", run="true", args=[SHARED], deps=["//p:d"])\n',
                                     "p/COND": 'run_command(name="d", run="true", args=[SHARED])\n'}, False),
        ("name-leak-via-include", {"COND": 'include("common.cond")\nrun_command(name="t", run="true", args=[X], deps=["//p:d"])\n', "common.cond": "X = 1\n",
                                   "p/COND": 'run_command(name="d", run="true", args=[X])\n'}, False),
        ("name-leak-function", {"COND": 'def helper():\n    return "x"\nrun_command(name="t", run="true", args=[helper()], deps=["//p:d"])\n',
                                "p/COND": 'run_command(name="d", run="true", args=[helper()])\n'}, False),
        ("name-shadow-constructor", {"COND": 'orig = run_command\ndef run_command(**kw):\n    kw["run"] = "shadowed"\n    orig(**kw)\nrun_command(name="t", run="./t.sh", deps=["//p:d"])\n',
                                     "p/COND": 'run_command(name="d", run="./d.sh")\n'}, True),
        # the same relative include string used by COND files in different directories within one command
        ("include-same-string-second-missing", {"COND": 'include("common.cond")\nrun_command(name="t", run="true", args=[X], deps=["//p:d"])\n',
                                                "common.cond": "X = 1\n", "p/COND": 'include("common.cond")\nrun_command(name="d", run="true", args=[X])\n'}, False),
        ("include-same-string-second-raises", {"COND": 'include("common.cond")\nrun_command(name="t", run="true", args=[X], deps=["//p:d"])\n',
                                               "common.cond": "X = 1\n", "p/common.cond": "X = 1 / 0\n",
                                               "p/COND": 'include("common.cond")\nrun_command(name="d", run="true", args=[X])\n'}, False),
        ("include-same-string-second-defines-task", {"COND": 'include("common.cond")\nrun_command(name="t", run="true", args=[X], deps=["//p:d"])\n',
                                                     "common.cond": "X = 1\n", "p/common.cond": 'X = 2\nrun_command(name="z", run="true")\n',
                                                     "p/COND": 'include("common.cond")\nrun_command(name="d", run="true", args=[X])\n'}, False),
        ("include-same-string-first-bad", {"COND": 'run_command(name="t", run="true", deps=["//p:d"])\n',
                                           "p/COND": 'include("common.cond")\nrun_command(name="d", run="true", args=[X], deps=["//q:e"])\n',
                                           "p/common.cond": "X = 2\n", "q/COND": 'include("common.cond")\nrun_command(name="e", run="true", args=[X])\n',
                                           "q/common.cond": "X = (\n"}, False),
        ("include-same-string-both-good", {"COND": 'include("common.cond")\nrun_command(name="t", run="./t.sh", args=[X], deps=["//p:d"])\n',
                                           "common.cond": "X = 1\n", "p/common.cond": "X = 2\n",
                                           "p/COND": 'include("common.cond")\nrun_command(name="d", run="./d.sh", args=[X])\n'}, True),
    ]
    for tag, files, expect in specials:
        files = dict(files)
        yield {"tag": "special:" + tag, "files": files, "target": "//:t", "expect": expect, "nontrivial": True,
               "outside": tag.startswith("include-outside"),
               "must_name": {"include-defines-task": "common.cond", "include-includes": "common.cond", "include-raises": "common.cond",
                             "include-syntax": "common.cond", "include-bad-in-dep-file": "common.cond", "dep-file-bad-task": "p/COND",
                             "include-same-string-second-raises": "p/common.cond", "include-same-string-first-bad": "q/common.cond",
                             "syntax-error": "COND", "name-error": "COND"}.get(tag),
               "spawn_argv": {"//:t": "./t.sh 1 ", "//p:d": "./d.sh 2 "} if tag == "include-same-string-both-good" else
                             ({"//:t": "shadowed  ", "//p:d": "./d.sh  "} if tag == "name-shadow-constructor" else None)}


def warmup():
    driver.mods()


def items(tier):
    srcs = list(gen_sources(tier))
    return [{"cases": srcs[i:i + 30]} for i in range(0, len(srcs), 30)]


def run_one(case, found, res):
    files = dict(case["files"])
    for flags in (["--check"], []):
        res["evals"] += 1
        root = driver.fresh_project(files, name="c15")
        if case.get("outside"):
            for rel in ("outside.cond", "c15-shared/common.cond", "c152/common.cond"):
                os.makedirs(os.path.dirname(os.path.join(os.path.dirname(root), rel)), exist_ok=True)
                with open(os.path.join(os.path.dirname(root), rel), "w") as f:
                    f.write("X = 1\n")
        vk = vkmod.VK(project_root=root)
        r = driver.run_cli(["run", case["target"]] + flags, root, vk=vk, git=fakegit.NO_GIT, clock=driver.Clock())
        spawns = [e for e in vk.log if e[0] == "spawn"]
        outdirs = []
        for d, dirs, fs in os.walk(os.path.join(root, "cond-out")):
            outdirs += [x for x in dirs if ".task" in x]
        art = {"files": {k: (v if isinstance(v, str) else v.decode("latin-1")) for k, v in files.items()},
               "bytes": [k for k, v in files.items() if isinstance(v, bytes)], "target": case["target"],
               "expect": case["expect"], "tag": case["tag"], "outside": case.get("outside", False), "spawn_argv": case.get("spawn_argv"), "must_name": case.get("must_name")}

        def viol(key, what):
            found.setdefault("%s:%s" % (key, case["tag"]), (what, art))

        if r.exc is not None or "Traceback" in r.err_text:
            viol("internal-error", "cond run %s %s: %r / stderr %r on %r" % (case["target"], flags, r.exc, r.err_text[-300:], files))
            continue
        if flags and (spawns or outdirs):
            viol("check-executed", "--check spawned %d tasks / created %s" % (len(spawns), outdirs))
        if case["expect"] is None:
            continue
        if case["expect"]:
            if r.exit != 0:
                viol("valid-rejected", "well-formed definition rejected: exit %r stderr %r source %r" % (r.exit, r.err_text[:300], files))
            elif not flags and case.get("spawn_argv"):
                got = {e[2]: e[3]["argv"][0] for e in spawns}
                if got != case["spawn_argv"]:
                    viol("wrong-definition-loaded", "accepted, but the tasks were defined as %r, expected %r (each COND file must see its own include)" % (got, case["spawn_argv"]))
        else:
            if r.exit == 0:
                viol("invalid-accepted", "malformed definition accepted (exit 0) %s: %r" % (flags, files))
                continue
            if not r.err_text.startswith("ERROR:"):
                viol("no-error-line", "stderr does not start with ERROR: %r" % r.err_text[:200])
            if "COND" not in r.err_text and ".cond" not in r.err_text and ".py" not in r.err_text:
                viol("file-not-named", "diagnostic does not name the file: %r for %r" % (r.err_text[:300], files))
            elif case.get("must_name") and ("//" + case["must_name"]) not in r.err_text:
                viol("wrong-file-named", "the error is in %s but the diagnostic names another file: %r" % (case["must_name"], r.err_text[:300]))
            if spawns or outdirs:
                viol("executed-despite-error", "%d tasks spawned / outputs %s although the definition is malformed" % (len(spawns), outdirs))


def run_item(item, tier):
    res = {"evals": 0, "sigs": set(), "violations": [], "counters": {}, "sample": None}
    found = {}
    for case in item["cases"]:
        run_one(case, found, res)
        if case["nontrivial"]:
            res["sigs"].add(explore.sig([{k: (v if isinstance(v, str) else v.decode("latin-1")) for k, v in case["files"].items()}]))
        k = "expect_%s" % {True: "accept", False: "reject", None: "dontcare"}[case["expect"]]
        res["counters"][k] = res["counters"].get(k, 0) + 1
    c = item["cases"][len(item["cases"]) // 2]
    res["sample"] = {"tag": c["tag"], "COND": c["files"].get("COND") if isinstance(c["files"].get("COND"), str) else "<bytes>",
                     "reference": c["expect"]}
    for key, (what, art) in found.items():
        res["violations"].append({"key": key, "what": what, "artefact": art})
    return res


def replay(artefact):
    files = {k: (v.encode("latin-1") if k in artefact.get("bytes", []) else v) for k, v in artefact["files"].items()}
    case = {"files": files, "target": artefact["target"], "expect": artefact["expect"], "tag": artefact["tag"],
            "outside": artefact.get("outside", False), "spawn_argv": artefact.get("spawn_argv"), "must_name": artefact.get("must_name")}
    found = {}
    res = {"evals": 0}
    run_one(case, found, res)
    return [(k, w) for k, (w, a) in found.items()]
