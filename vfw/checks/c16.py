"""C16 - an interrupt stops all running tasks and records nothing unfinished."""
import os

from .. import driver, explore, inject, rungrid, vk as vkmod

ID = "C16"
LEVEL = "fault_enumeration"
RULE = ("scenarios {1 command; 1 experiment; chain of 2; 2 parallel + dependent with -j2; experiment + combine; experiment group -j2; "
        "--stop-early with a failing task and a sibling in flight; a COND file with include() "
        "(thorough: + all n<=3 shapes)} x every deviation-0 schedule (completion order; deviation-1 schedules - early exits, batched exits - for single-task scenarios) x ConductorAbort raised at every line event of "
        "Conductor code from the return of register_signal_handlers() to process exit - exactly how an exception raised by the "
        "SIGINT/SIGTERM handler surfaces in the interrupted frame; oracle per injected run: exit != 0 with the abort message and no "
        "internal error; every virtual process that was running at the injection point has its process group in a killpg(SIGTERM) "
        "call by the end; the index holds no row for a task whose child had not exited 0. non-trivial = injection point reached with "
        "a distinct (function, line, number of live processes); distinct = that triple per scenario"
        " The first eight scenarios are injected again at two finer granularities: the eval-breaker instructions (RESUME, JUMP_BACKWARD) and "
        "the instruction after every CALL that ran C code only (Popen, killpg, sqlite commit, os.read have returned)."
        " The planning phase (from the entry of the run command to the first process start) is injected separately with whatever the "
        "process's current SIGINT disposition raises (so a handler that is installed too late shows)."
        " A third family delivers SIGINT / SIGTERM through the process's actual signal disposition while each task is in flight, for "
        "every combination of inherited dispositions {default, ignored} of the two signals (same oracle); a SIGTERM sent with kill() to a "
        "group leader alone does not count as signalling the group."
        ' One scenario is a git project with cached versions at ancestor commits (planning talks to git before anything runs).')
ASSUMPTIONS = [
    "one signal per execution; two granularities: every Python line of Conductor code (arrival inside a C call surfaces there), and every "
    "RESUME / JUMP_BACKWARD instruction of Conductor code (where CPython 3.12 runs signal handlers between bytecodes)",
    "injection points with a finalizer (__del__) on the stack are excluded: CPython discards exceptions raised there",
    "the unavoidable CPython window inside Popen.__init__ (child forked, Popen object not yet returned) is not charged to Conductor",
]
CHUNK = 1
NCHUNKS = 24


def warmup():
    rungrid.explore_case({"g": [[]], "kinds": ["exp"], "jobs": 1}, 0, [])
    rungrid.explore_case({"g": [[1, 2], [], []], "kinds": ["combine", "exp", "cmd"], "pars": [False, True, True], "jobs": 2}, 0, [])


def scenarios(tier):
    cases = [
        {"g": [[]], "kinds": ["cmd"], "jobs": 1},
        {"g": [[]], "kinds": ["exp"], "jobs": 1},
        {"g": [[1], []], "kinds": ["exp", "cmd"], "jobs": 1},
        {"g": [[1, 2], [], []], "kinds": ["cmd", "cmd", "exp"], "pars": [False, True, True], "jobs": 2},
        {"g": [[1, 2], [], []], "kinds": ["combine", "exp", "exp"], "pars": [False, False, False], "jobs": 1},
        {"g": [[1, 2], [2], []], "kinds": ["exp", "exp", "exp"], "pars": [True, True, True], "jobs": 3},
        # --stop-early with a failing task while a sibling is in flight: the ordinary stop-early path is already terminating
        # processes when the interrupt arrives
        {"g": [[1, 2], [], []], "kinds": ["cmd", "cmd", "cmd"], "pars": [False, True, True], "jobs": 2, "fails": {"1": ["exit", 3]}, "stop_early": True},
        # a COND file that include()s a settings file (the interrupt can arrive while the included file is being evaluated)
        {"g": [[1], []], "kinds": ["cmd", "exp"], "jobs": 1, "with_include": True},
        # git project with cached versions at ancestor commits: planning talks to git (is_ancestor / get_distance) before anything runs
        {"g": [[1, 2], [], []], "kinds": ["cmd", "exp", "exp"], "pars": [False, False, False], "jobs": 1, "git": True,
         "cached": {"1": "c1" * 20, "2": "c2" * 20}, "two_versions": True, "empty_index": True},
    ]
    if tier == "thorough":
        for g in rungrid.graphs_upto((2, 3)):
            for kinds in (["cmd"] * len(g), ["exp"] * len(g)):
                for jobs in (1, 2):
                    cases.append({"g": g, "kinds": kinds, "pars": [jobs > 1] * len(g), "jobs": jobs})
    return cases


def items(tier):
    out = []
    for i, c in enumerate(scenarios(tier)):
        # deviation-1 schedules (a task that exits before Conductor has registered it, exits delivered in a batch) for the
        # small scenarios; deviation 0 (all completion orders) for the others
        bound = 1 if (len(c["g"]) == 1 or (tier == "thorough" and len(c["g"]) <= 2)) else 0
        for ch in range(NCHUNKS):
            out.append({"case": c, "chunk": ch, "scn_index": i, "bound": bound})
    # second granularity: exactly the instructions at which CPython runs Python-level signal handlers in Python code
    for i, c in enumerate(scenarios(tier)[:8]):
        for ch in range(NCHUNKS // 3):
            out.append({"case": c, "chunk": ch, "nchunks": NCHUNKS // 3, "scn_index": i, "bound": 0, "granularity": "evalbreaker"})
    # ... and right after every call that ran C code only (CPython checks for pending signals at the end of such a CALL): the abort
    # surfaces after Popen / killpg / sqlite commit / os.read have returned and before anything else in the frame runs
    for i, c in enumerate(scenarios(tier)[:8]):
        for ch in range(NCHUNKS // 3):
            out.append({"case": c, "chunk": ch, "nchunks": NCHUNKS // 3, "scn_index": i, "bound": 0, "granularity": "aftercall"})
    # planning phase: every line from the entry of the run command on, the exception being whatever the process's CURRENT SIGINT
    # disposition raises (Conductor's handler must already be installed)
    for i, c in enumerate(scenarios(tier)):
        if c.get("with_include") or (tier == "thorough" and (c.get("git") or len(c["g"]) == 2)):
            out.append({"kind": "planning", "case": c, "scn_index": i})
    # third family: the signal is taken by whatever disposition the process has at that moment - for every disposition `cond` can
    # inherit from its launcher (default, ignored: `cmd &` in a non-interactive shell, nohup-like wrappers), for both signals,
    # while each process task is in flight
    for i, c in enumerate(scenarios(tier)[:7]):
        out.append({"kind": "disposition", "case": c, "scn_index": i})
    return out


def interrupt_as_disposed():
    """What a SIGINT does to this process right now: the installed Python handler raises its exception, the interpreter's default
    raises KeyboardInterrupt, SIG_DFL/SIG_IGN cannot be expressed as an exception (returned as markers)."""
    import signal
    h = signal.getsignal(signal.SIGINT)
    if h is signal.default_int_handler:
        return KeyboardInterrupt()
    if h in (signal.SIG_DFL, signal.SIG_IGN, None):
        return RuntimeError("SIGINT with disposition %r" % (h,))
    try:
        h(signal.SIGINT, None)
    except BaseException as ex:  # noqa
        return ex
    return RuntimeError("the SIGINT handler returned without raising")


DISPOSITIONS = ["default", "ignored"]


def run_disposition(item, res, found):
    import signal
    case = item["case"]
    base = rungrid.make_scenario(case)
    ids = [k for k in base["behaviours"]] if base.get("behaviours") else []
    from .. import graphs
    n = len(case["g"])
    keys = ["//:%s" % graphs.node_name(i) for i in range(n) if case["kinds"][i] in ("cmd", "exp")]
    for key in keys:
        for signame in ("SIGINT", "SIGTERM"):
            for disp_int in DISPOSITIONS:
                for disp_term in DISPOSITIONS:
                    scn = rungrid.make_scenario(case)
                    scn["behaviours"] = {k: dict(v) for k, v in (scn.get("behaviours") or {}).items()}
                    scn["behaviours"].setdefault(key, {}).update({"sigint_while_running": True, "abort_signal": signame})
                    old = {s_: signal.getsignal(s_) for s_ in (signal.SIGINT, signal.SIGTERM)}
                    try:
                        signal.signal(signal.SIGINT, signal.SIG_IGN if disp_int == "ignored" else signal.default_int_handler)
                        signal.signal(signal.SIGTERM, signal.SIG_IGN if disp_term == "ignored" else signal.SIG_DFL)
                        obs = explore.execute(scn, [], allow_unconsumed=True, timeout=5)
                    finally:
                        for s_, h in old.items():
                            signal.signal(s_, h)
                    res["evals"] += 1
                    art = {"kind": "disposition", "case": case, "task": key, "signal": signame, "inherited": [disp_int, disp_term]}
                    where = "%s while %s runs (inherited dispositions: SIGINT %s, SIGTERM %s)" % (signame, key, disp_int, disp_term)
                    evs = [e for e in obs.vk.log if e[0] == "sigint"]
                    if not evs:
                        continue   # the task never ran (cached / skipped)
                    res["sigs"].add(explore.sig([item["scn_index"], key, signame, disp_int, disp_term]))
                    running, exited0 = evs[0][3], set(evs[0][4])

                    def viol(k, what):
                        found.setdefault(k, (what, art))

                    r = obs.res
                    if isinstance(r.exc, driver.HarnessTimeout) or r.timed_out:
                        viol("signal:hang", "%s: cond does not exit" % where)
                        continue
                    if r.exc is not None:
                        viol("signal:%s" % type(r.exc).__name__, "%s: cond ends with %s: %s instead of reporting the abort" % (where, type(r.exc).__name__, r.exc))
                    elif r.exit == 0:
                        viol("signal:exit-zero", "%s: the run carried on and exited 0 (%s)" % (where, "the signal was ignored" if any(e[0] == "signal-ignored" for e in obs.vk.log) else "no abort"))
                    elif "aborted" not in r.err_text:
                        viol("signal:not-reported", "%s: exit %r but stderr %r" % (where, r.exit, r.err_text[:200]))
                    termed = {pgid for pgid, sg in obs.vk.killpg_calls if sg == 15}
                    for pid, k2 in running:
                        if pid not in termed:
                            viol("signal:not-terminated", "%s: the process group of %s (pid %d) never received SIGTERM" % (where, k2, pid))
                    pre = {(r_[0], r_[1]) for r_ in (scn.get("index_rows") or [])}
                    for row in obs.rows or []:
                        if (row[0], row[1]) in pre:
                            continue
                        if row[0] not in exited0 and not any(p.key == row[0] and p.status == 0 for p in obs.vk.procs.values()):
                            viol("signal:unfinished-recorded", "%s: version recorded for %s whose process had not exited 0" % (where, row[0]))
                    if res["sample"] is None:
                        res["sample"] = {"argv": scn["argv"], "signal": signame, "while_running": key, "inherited": [disp_int, disp_term],
                                         "exit": r.exit, "stderr": r.err_text[:80]}


def run_planning(item, res, found, only_k=None):
    scn = rungrid.make_scenario(item["case"])
    start_in = ("cli/run.py", "main")
    counts = []
    for _ in range(5):
        counter = inject.AbortInjector(None, start_after=None, start_in=start_in)
        explore.execute(scn, [], tracer=counter)
        counts.append(counter.count)
        if len(counts) >= 2 and counts[-1] == counts[-2] and counts[-1] > 0:
            break
    # the planning phase ends with the first spawn / Running line: only the events up to the first process start are used
    first = None
    probe = inject.AbortInjector(None, start_after=None, start_in=start_in)
    probe.on_count = None
    N = counts[-1]
    if len(counts) < 2 or counts[-1] != counts[-2] or N == 0:
        raise RuntimeError("planning injection-point count not deterministic: %r" % (counts,))
    for k in (range(0, N) if only_k is None else [only_k]):
        inj = inject.AbortInjector(k, exc_factory=interrupt_as_disposed, start_after=None, start_in=start_in)
        state = {}

        def on_fire(i):
            vk = vkmod.CURRENT["vk"]
            state["spawned"] = any(e[0] == "spawn" for e in vk.log)
        inj.on_fire = on_fire
        obs = explore.execute(scn, [], tracer=inj, allow_unconsumed=True, timeout=5)
        res["evals"] += 1
        if inj.fired_at is None or inj.skipped_finalizer:
            continue
        if state.get("spawned"):
            break      # execution has begun: the other families take over
        res["sigs"].add(explore.sig([item["scn_index"], "planning", inj.fired_at]))
        art = {"kind": "planning", "case": item["case"], "k": k}
        r = obs.res
        where = "%s:%s:%d" % (inj.fired_at[1], inj.fired_at[0], inj.fired_at[2])
        if r.exc is not None:
            found.setdefault("planning:%s" % type(r.exc).__name__,
                             ("SIGINT while planning (%s): cond dies with %s instead of reporting the abort" % (where, type(r.exc).__name__), art))
        elif r.exit == 0:
            found.setdefault("planning:exit-zero", ("SIGINT while planning (%s): exit status 0" % where, art))
        elif "aborted" not in r.err_text:
            found.setdefault("planning:not-reported", ("SIGINT while planning (%s): exit %r but stderr %r" % (where, r.exit, r.err_text[:200]), art))
        if obs.rows and any((row[0], row[1]) not in {(x[0], x[1]) for x in (scn.get("index_rows") or [])} for row in obs.rows):
            found.setdefault("planning:recorded", ("SIGINT while planning (%s): a version was recorded" % where, art))
    res["sample"] = {"argv": scn["argv"], "planning_points": N}


def schedules(scn, bound=0):
    found = []
    explore.explore(scn, bound, lambda obs: found.append(list(obs.choices)))
    return found


def one_injection(scn, choices, k, target=None, granularity="line"):
    from conductor.errors import ConductorAbort
    inj = inject.AbortInjector(k, exc_factory=ConductorAbort, target=target, granularity=granularity)
    state = {}

    def on_fire(i):
        vk = vkmod.CURRENT["vk"]
        # the recorded schedule only describes the run up to the injection point: afterwards take defaults
        ch = vk.chooser
        ch.prefix = ch.prefix[:ch.i]
        state["running"] = sorted((p.pid, p.key) for p in vk.running() if not p.unrelated)
        state["exited0"] = {p.key for p in vk.procs.values() if p.state != "run" and p.status == 0}
    inj.on_fire = on_fire
    obs = explore.execute(scn, choices, tracer=inj, allow_unconsumed=True, timeout=3)
    return inj, state, obs


def check(inj, state, obs, viol_cb, art):
    res = obs.res
    where = "%s:%s:%d%s" % (inj.fired_at[1], inj.fired_at[0], inj.fired_at[2], (" [%s@%d]" % tuple(inj.fired_at[3:5])) if len(inj.fired_at) > 3 else "")
    if isinstance(res.exc, driver.HarnessTimeout) or res.timed_out:
        viol_cb("abort:hang:%s" % inj.fired_at[0], "abort at %s: cond does not exit: it blocks waiting for a task that nobody terminated" % where, art)
        return
    if res.exc is not None:
        viol_cb("abort:internal-error:%s:%s" % (type(res.exc).__name__, inj.fired_at[0]),
                "abort at %s: cond dies with %s: %s instead of reporting the abort" % (where, type(res.exc).__name__, res.exc), art)
    else:
        if res.exit == 0:
            viol_cb("abort:exit-zero:%s" % inj.fired_at[0], "abort at %s: exit status 0" % where, art)
        elif "aborted" not in res.err_text:
            viol_cb("abort:not-reported:%s" % inj.fired_at[0], "abort at %s: exit %r but stderr %r" % (where, res.exit, res.err_text[:200]), art)
    termed = {pgid for pgid, sig in obs.vk.killpg_calls if sig == 15}
    for pid, key in state.get("running", []):
        if pid not in termed:
            viol_cb("abort:not-terminated:%s" % inj.fired_at[0],
                    "abort at %s: %s (pid %d) was running and never received SIGTERM" % (where, key, pid), art)
    pre = {(r[0], r[1]) for r in (obs.scn.get("index_rows") or [])}
    for row in obs.rows or []:
        if (row[0], row[1]) in pre:
            continue  # recorded before this invocation
        if row[0] not in state.get("exited0", set()) and not any(
                p.key == row[0] and p.status == 0 for p in obs.vk.procs.values()):
            viol_cb("abort:unfinished-recorded", "abort at %s: version recorded for %s whose process had not exited 0" % (where, row[0]), art)


def run_item(item, tier):
    res = {"evals": 0, "sigs": set(), "violations": [], "counters": {}, "sample": None}
    found = {}
    if item.get("kind") == "planning":
        run_planning(item, res, found)
        for key, (what, art) in found.items():
            res["violations"].append({"key": key, "what": what, "artefact": art})
        return res
    if item.get("kind") == "disposition":
        run_disposition(item, res, found)
        for key, (what, art) in found.items():
            res["violations"].append({"key": key, "what": what, "artefact": art})
        return res
    scn = rungrid.make_scenario(item["case"])
    gran = item.get("granularity", "line")
    nchunks = item.get("nchunks", NCHUNKS)
    for choices in schedules(scn, item.get("bound", 0)):
        counts = []
        for _ in range(5):   # the first traced run of a code object can see fewer events (instrumentation is installed lazily)
            counter = inject.AbortInjector(None, granularity=gran)
            explore.execute(scn, choices, tracer=counter)
            counts.append(counter.count)
            if len(counts) >= 2 and counts[-1] == counts[-2] and counts[-1] > 0:
                break
        N = counts[-1]
        if len(counts) < 2 or counts[-1] != counts[-2] or N == 0:
            raise RuntimeError("injection-point count not deterministic: %r" % (counts,))
        res["counters"]["N:%d:%s" % (item["scn_index"], "".join(map(str, choices)))] = N if item["chunk"] == 0 else 0
        lo = item["chunk"] * N // nchunks
        hi = (item["chunk"] + 1) * N // nchunks
        for k in range(lo, hi):
            inj, state, obs = one_injection(scn, choices, k, granularity=gran)
            res["evals"] += 1
            if inj.fired_at is None:
                raise RuntimeError("injection point %d of %d never reached" % (k, N))
            if inj.skipped_finalizer:
                res["counters"]["skipped_in_finalizer"] = res["counters"].get("skipped_in_finalizer", 0) + 1
                continue
            res["sigs"].add(explore.sig([item["scn_index"], gran, inj.fired_at, len(state.get("running", []))]))
            art = {"case": item["case"], "choices": choices, "k": k, "N": N, "granularity": gran,
                   "target": list(inj.fired_key) + [inj.nth]}
            check(inj, state, obs, lambda key, what, a: found.setdefault(key, (what, a)), art)
            if res["sample"] is None and state.get("running"):
                res["sample"] = {"argv": scn["argv"], "schedule": choices, "line_events": N, "injected_at": list(inj.fired_at),
                                 "live_processes": state["running"], "exit": obs.res.exit, "stderr": obs.res.err_text[:80]}
    for key, (what, art) in found.items():
        res["violations"].append({"key": key, "what": what, "artefact": art})
    return res


def replay(artefact):
    if artefact.get("kind") == "planning":
        res = {"evals": 0, "sigs": set(), "sample": None}
        found = {}
        run_planning({"case": artefact["case"], "scn_index": -1}, res, found, only_k=artefact.get("k"))
        return [(k, w) for k, (w, a) in found.items()]
    if artefact.get("kind") == "disposition":
        res = {"evals": 0, "sigs": set(), "sample": None}
        found = {}
        run_disposition({"case": artefact["case"], "scn_index": -1}, res, found)
        return [(k, w) for k, (w, a) in found.items()]
    scn = rungrid.make_scenario(artefact["case"])
    warm = inject.AbortInjector(None, granularity=artefact.get("granularity", "line"))
    explore.execute(scn, artefact["choices"], tracer=warm)
    found = {}
    inj, state, obs = one_injection(scn, artefact["choices"], None, target=artefact["target"], granularity=artefact.get("granularity", "line"))
    if inj.fired_at is None or inj.skipped_finalizer:
        return []
    check(inj, state, obs, lambda key, what, a: found.setdefault(key, what), None)
    return list(found.items())
