"""C02 - each needed task runs exactly once per invocation; nothing else runs."""
import itertools

from .. import rungrid

ID = "C02"
LEVEL = "model_checking"
RULE = ("all rooted DAG shapes (n<=3 all kinds, n=4 all listing orders) x cache state of every experiment (no version / version "
        "without commit / version at an older commit / version at HEAD) x {default, --again, --at-least HEAD} x jobs, run under the "
        "virtual kernel (all completion orders); oracle = reference needed-set (closure minus tasks satisfied by or hidden behind a "
        "reusable version): each needed task started exactly once, nothing else, cached-line set disjoint from executed set, progress "
        "total = executed count; distinct = distinct (case, terminal event order)"
        " --at-least is given both as a full hash and as a tag / branch / HEAD (resolved through the fake git's refs).")
ASSUMPTIONS = [
    "cache states are expressed through a pre-seeded version index + output directory; git through the fake git (2 commits c1<-c2=HEAD)",
    "the property does not quantify over failures: all tasks succeed in this check",
]
CHUNK = 8


def warmup():
    rungrid.explore_case({"g": [[]], "kinds": ["cmd"], "jobs": 1}, 0, [])


def mon(s, obs):
    if s.case.get("dupdep"):
        # the same task listed twice (in two spellings) is a duplicate dependency: rejected, nothing may execute
        v = []
        if s.starts or s.running_lines:
            v.append(("once:duplicate-dep-executed", "a task lists %s twice (two spellings); tasks were executed: %s"
                      % (s.ids[s.case["dupdep"][1]], sorted({s.ids[n] for _, n, _ in s.starts}))))
        if s.exit == 0:
            v.append(("once:duplicate-dep-accepted", "a task lists %s twice (two spellings) but cond run exits 0" % s.ids[s.case["dupdep"][1]]))
        return v
    v = rungrid.mon_once(s, success_only=True)
    if s.exc is not None or s.exit != 0:
        v.append(("once:run-failed", "cond run exited %r (%s) although every task succeeds" % (s.exit, s.exc)))
    return v


C1, C2 = "c1" * 20, "c2" * 20


def items(tier):
    out = []
    seen = set()

    def add(case):
        k = repr(sorted(case.items(), key=lambda kv: kv[0]))
        if k in seen:
            return
        seen.add(k)
        out.append({"case": case, "bound": 0})

    def cache_states(kinds, git):
        exps = [i for i, k in enumerate(kinds) if k == "exp"]
        vals = [("no",), (None,), (C1,), (C2,)] if git else [("no",), (None,)]
        for combo in itertools.product(vals, repeat=len(exps)):
            yield {str(i): c[0] for i, c in zip(exps, combo) if c[0] != "no"}

    C3 = "c3" * 20
    for g in rungrid.graphs_upto((1, 2, 3)):
        n = len(g)
        for kinds in (["exp"] * n, (["cmd", "exp"] * n)[:n], (["combine"] + ["exp"] * n)[:n]):
            exps = [i for i, k in enumerate(kinds) if k == "exp"]
            for mixed in ([None, C3], [C3, None], [C3], [C1, C3], [C3, C2], [C1, C2], [C2, C1], [None, None]):
                for which in exps:
                    for flags in ({}, {"at_least": C2}, {"at_least": "tag-c1"}):
                        add(dict({"g": g, "kinds": kinds, "pars": [False] * n, "jobs": 1, "cached": {str(which): mixed}, "git": True,
                                  "empty_index": True}, **flags))
    for g in rungrid.graphs_upto((1, 2, 3)):
        n = len(g)
        for kinds in rungrid.kind_assignments(g, "all4"):
            for git in (False, True):
                for cached in cache_states(kinds, git):
                    flagsets = [{}] if not cached and git else [{}, {"again": True}]
                    if git:
                        flagsets = flagsets + [{"at_least": C2}, {"at_least": "tag-c2"}, {"at_least": "HEAD"}, {"at_least": "tag-c1"}]
                    for flags in flagsets:
                        for jobs in ((1,) if n < 3 else (1, 2)):
                            pars = [k in ("cmd", "exp") and jobs > 1 for k in kinds]
                            add(dict({"g": g, "kinds": kinds, "pars": pars, "jobs": jobs, "cached": cached, "git": git,
                                      "empty_index": True}, **flags))
    # one dependency listed twice under two spellings
    for g in rungrid.graphs_upto((2, 3)):
        n = len(g)
        for node in range(n):
            for dep in g[node]:
                for kinds in (["cmd"] * n, ["exp"] * n):
                    add({"g": g, "kinds": kinds, "pars": [False] * n, "jobs": 1, "dupdep": [node, dep]})
    # n = 4: every listing order, experiments everywhere / mixed, cache states without git + at-least with git
    for g in rungrid.graphs_upto((4,), shared_only_from=4 if tier == "quick" else None):
        for kinds in (["exp"] * 4, ["cmd", "exp", "cmd", "exp"], ["combine", "exp", "exp", "cmd"]):
            for git in ((False,) if tier == "quick" else (False, True)):
                for cached in cache_states(kinds, git):
                    for flags in ([{}, {"again": True}] + ([{"at_least": C2}] if git else [])):
                        add(dict({"g": g, "kinds": kinds, "pars": [k != "combine" for k in kinds], "jobs": 2,
                                  "cached": cached, "git": git, "empty_index": True}, **flags))
    # n = 5: every graph in every listing order, nothing cached (each needed task exactly once, whatever the completion order)
    for g in rungrid.graphs_upto((5,)):
        add({"g": g, "kinds": ["cmd"] * 5, "pars": [False] * 5, "jobs": 1})
        if tier == "thorough" or sum(len(d) for d in g) <= 5:
            add({"g": g, "kinds": ["exp", "cmd", "exp", "cmd", "exp"], "pars": [True] * 5, "jobs": 2})
    return out


def run_item(item, tier):
    return rungrid.explore_case(item["case"], 0, [mon], max_exec=50000)


def replay(artefact):
    return rungrid.replay_case(artefact, [mon])
