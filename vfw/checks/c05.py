"""C05 - cached-result selection follows the documented compatibility rule."""
import itertools
import os
import pathlib
import subprocess

from .. import driver, explore, fakegit, ref, vk as vkmod

ID = "C05"
LEVEL = "model_checking"
RULE = ("all commit DAGs with <=3 (quick) / <=4 (thorough) commits (parents among earlier commits, <=2 parents, several roots) x HEAD at "
        "every commit x every timestamp-ordered sequence of <=3 recorded versions whose commit ranges over {none, each commit, an "
        "unknown hash} x git mode {enabled, disable_git, no repository, no commits} x flags {none, --at-least C for every C, "
        "--this-commit, --again, invalid combinations}; the selection runs through the real RunExperiment/VersionIndex/Git code on a "
        "real SQLite index with the fake git; end-to-end through `cond where`, `cond run` (spawned vs cached) and the COND_DEPS of a "
        "dependent for <=3 commits x <=2 versions; oracle = the documented rule (ref.select_version / at_least_rerun). states = "
        "distinct (DAG, HEAD, mode, version-sequence) selection states; transitions = selections/flag evaluations performed; "
        "traces validated = fake-git answers compared with real git 2.39 on real repositories built with commit-tree"
        ' --at-least is passed as hash and as ref name; rows are inserted in both timestamp orders; and the whole selection (conductor.lib.path.where) is additionally run on REAL git repositories for every DAG with <=4 commits (HEAD x version sequences <=2), so any change in how git is queried is judged by real git.')
ASSUMPTIONS = [
    "fake git is bound to real git by the conformance items of this check (all DAGs, all ordered pairs, unknown hash, no commits, no repository)",
    "versions have pairwise distinct timestamps (primary key of the index)",
]
CHUNK = 4
UNKNOWN = "f" * 40


def commit_dags(nmax):
    """-> list of parent tuples per commit: dag[i] = tuple of parent indices (< i)"""
    out = []

    def rec(dag, n):
        if len(dag) == n:
            out.append(tuple(dag))
            return
        i = len(dag)
        for r in range(0, min(2, i) + 1):
            for ps in itertools.combinations(range(i), r):
                rec(dag + [ps], n)

    for n in range(1, nmax + 1):
        rec([], n)
    return out


def hname(i):
    return ("%x" % (i + 10)) * 40


def fake_for(dag, head, mode, dirty=False):
    commits = {hname(i): [hname(p) for p in ps] for i, ps in enumerate(dag)}
    if mode == "norepo":
        return fakegit.FakeGit(is_repo=False)
    if mode == "nocommits":
        return fakegit.FakeGit(commits={}, head=None, is_repo=True)
    return fakegit.FakeGit(commits=commits, head=hname(head), is_repo=True, dirty=dirty)


def version_seqs(ncommits, kmax, kmin=0):
    labels = [None, UNKNOWN] + [hname(i) for i in range(ncommits)]
    for k in range(kmin, kmax + 1):
        for seq in itertools.product(labels, repeat=k):
            yield [(100 * (j + 1), c) for j, c in enumerate(seq)]


def warmup():
    driver.mods()


def items(tier):
    out = []
    nmax = 3 if tier == "quick" else 4
    dags = commit_dags(nmax)
    for dag in dags:
        out.append({"kind": "select", "dag": [list(p) for p in dag], "kmax": 2, "kmin": 0})
        out.append({"kind": "select", "dag": [list(p) for p in dag], "kmax": 3, "kmin": 3})
    for dag in commit_dags(3):
        if tier == "quick" and len(dag) == 3:
            out.append({"kind": "e2e", "dag": [list(p) for p in dag], "kmax": 1, "kmin": 0})
            continue
        out.append({"kind": "e2e", "dag": [list(p) for p in dag], "kmax": 1, "kmin": 0})
        out.append({"kind": "e2e", "dag": [list(p) for p in dag], "kmax": 2, "kmin": 2})
    for dag in commit_dags(nmax):
        out.append({"kind": "gitconf", "dag": [list(p) for p in dag]})
    # the whole selection path on REAL git repositories (no fake): catches any change in how git is asked
    for dag in commit_dags(4):
        out.append({"kind": "realgit", "dag": [list(p) for p in dag], "kmax": 2 if (tier == "thorough" or len(dag) <= 3 or any(len(p) == 2 for p in dag)) else 1})
    out.append({"kind": "gitconf-special"})
    return out


COND = 'run_experiment(name="e", run="./e.sh")\nrun_command(name="top", run="./top.sh", deps=[":e"])\n'


def make_ctx(root, git):
    from conductor.context import Context
    return Context(pathlib.Path(root))


def run_item(item, tier):
    res = {"evals": 0, "sigs": set(), "states": set(), "transitions": 0, "violations": [], "counters": {}, "sample": None,
           "traces_validated": 0}
    found = {}

    def viol(key, what, art):
        found.setdefault(key, (what, art))

    if item["kind"] == "select":
        _select(item, res, viol)
    elif item["kind"] == "e2e":
        _e2e(item, res, viol)
    elif item["kind"] == "gitconf":
        _gitconf(item, res, viol)
    elif item["kind"] == "realgit":
        with _quiet_stderr():
            _realgit(item, res, viol)
    else:
        _gitconf_special(res, viol)
    for key, (what, art) in found.items():
        res["violations"].append({"key": key, "what": what, "artefact": art})
    return res


def _select(item, res, viol):
    from conductor.context import Context
    from conductor.task_types.run import RunExperiment
    from conductor.task_identifier import TaskIdentifier as TI
    m = driver.mods()
    dag = [tuple(p) for p in item["dag"]]
    n = len(dag)
    commits = {hname(i): [hname(p) for p in ps] for i, ps in enumerate(dag)}
    ident = TI.from_str("//:e")
    for versions, rev in ((v, r) for v in version_seqs(n, item["kmax"], item.get("kmin", 0)) for r in ((False, True) if len(v) >= 2 else (False,))):
        # rows are inserted in timestamp order and in reverse (restores of older archives make rowid order != time order)
        rows = [("//:e", ts, c, 0) for ts, c in (reversed(versions) if rev else versions)]
        root = driver.fresh_project({"COND": COND}, name="c05", index_rows=rows)
        modes = [("git", h) for h in range(n)] + [("norepo", 0), ("nocommits", 0), ("disable_git", 0)]
        for mode, head in modes:
            if mode == "disable_git":
                with open(os.path.join(root, "cond_config.toml"), "w") as f:
                    f.write("disable_git = true\n")
            git = fake_for(dag, head, "git" if mode == "disable_git" else mode)
            with driver.patched(driver.git_seam(git)):
                ctx = Context(pathlib.Path(root))

                def fresh_task():
                    return RunExperiment(identifier=ident, cond_file_path=pathlib.Path(root, "COND"), deps=[], run="x",
                                         args=[], options={}, parallelizable=False)
                res["evals"] += 1
                res["transitions"] += 1
                res["states"].add(explore.sig([item["dag"], mode, head, versions, rev]))
                want = ref.select_version(versions, "git" if mode == "git" else "nogit", commits, hname(head))
                art = {"kind": "select", "dag": item["dag"], "versions": versions, "mode": mode, "head": head, "reversed_insertion": rev}
                try:
                    t = fresh_task()
                    run0 = t.should_run(ctx, None)
                    p = fresh_task().get_output_path(ctx)
                except Exception as ex:  # noqa
                    viol("select:internal-error:%s" % type(ex).__name__, "mode %s HEAD %s versions %s: selection raised %s: %s"
                         % (mode, head, _pv(versions), type(ex).__name__, ex), art)
                    continue
                got = None
                if p is not None:
                    ts = int(p.name.rsplit(".", 1)[1])
                    got = [v for v in versions if v[0] == ts][0]
                if versions:
                    res["sigs"].add(explore.sig([item["dag"], mode, head, versions, rev]))
                if got != want or run0 != (want is None):
                    viol("select:%s:%s" % (mode, _why(versions, want, got, commits, hname(head))),
                         "mode %s HEAD %s versions %s: selected %s (should_run=%s), documented rule selects %s"
                         % (mode, head, _pv(versions), _pv1(got), run0, _pv1(want)), art)
                if mode == "git":
                    for c in range(n):
                        if hname(c) not in ref.reach(commits, hname(head)):
                            continue  # rejected by the CLI before planning (checked end-to-end)
                        res["transitions"] += 1
                        wantrun = ref.at_least_rerun(want, commits, hname(c))
                        try:
                            gotrun = fresh_task().should_run(ctx, hname(c))
                        except Exception as ex:  # noqa
                            viol("atleast:internal-error:%s" % type(ex).__name__, "--at-least %s raised %s: %s" % (c, type(ex).__name__, ex), dict(art, at_least=c))
                            continue
                        if wantrun != gotrun:
                            viol("atleast:%s" % ("reruns-needlessly" if gotrun else "fails-to-rerun"),
                                 "HEAD %s versions %s --at-least %s: should_run=%s, rule says %s (selected %s)"
                                 % (head, _pv(versions), c, gotrun, wantrun, _pv1(want)), dict(art, at_least=c))
            ctx = None   # (the SQLite connection is closed when the Context is collected; no private attribute is touched)
        if res["sample"] is None and len(versions) == 2:
            res["sample"] = {"dag_parents": item["dag"], "versions": _pv(versions), "head": n - 1,
                             "reference_selection": _pv1(ref.select_version(versions, "git", commits, hname(n - 1)))}


def _pv(vs):
    return [(ts, c[:2] if c else None) for ts, c in vs]


def _pv1(v):
    return None if v is None else (v[0], v[1][:2] if v[1] else None)


def _why(versions, want, got, commits, head):
    if want is None:
        return "selects-instead-of-running"
    if got is None:
        return "runs-instead-of-selecting"
    anc = ref.reach(commits, head)
    if got[1] is not None and got[1] not in anc:
        return "non-ancestor-selected"
    return "wrong-version"


def _e2e(item, res, viol):
    dag = [tuple(p) for p in item["dag"]]
    n = len(dag)
    commits = {hname(i): [hname(p) for p in ps] for i, ps in enumerate(dag)}
    for versions in version_seqs(n, item["kmax"], item.get("kmin", 0)):
        rows = [["//:e", ts, c, 0] for ts, c in versions]
        pre = {"cond-out/e.task.%d/data" % ts: "v%d\n" % ts for ts, c in versions}
        modes = [("git", h) for h in range(n)] + [("norepo", 0), ("nocommits", 0), ("disable_git", 0)]
        for mode, head in modes:
            gitd = None
            if mode in ("git", "disable_git"):
                gitd = {"commits": commits, "head": hname(head), "is_repo": True, "refs": {"ref-%d" % i: hname(i) for i in range(n)}}
            elif mode == "nocommits":
                gitd = {"commits": {}, "head": None, "is_repo": True}
            config = "disable_git = true\n" if mode == "disable_git" else ""
            want = ref.select_version(versions, "git" if mode == "git" else "nogit", commits, hname(head))
            base = {"files": {"COND": COND}, "config": config, "index_rows": rows, "pre_tree": pre, "git": gitd,
                    "clock": 1_700_000_000.0}
            art = {"kind": "e2e", "dag": item["dag"], "versions": versions, "mode": mode, "head": head}
            res["states"].add(explore.sig(["e2e", item["dag"], mode, head, versions]))
            if versions:
                res["sigs"].add(explore.sig(["e2e", item["dag"], mode, head, versions]))

            def run(argv):
                res["evals"] += 1
                res["transitions"] += 1
                return explore.execute(dict(base, argv=argv), name="c05e")

            # cond where
            o = run(["where", "//:e"])
            wp = o.res.out_text.strip()
            if want is None:
                if o.res.exit == 0:
                    viol("where:reports-unselected", "cond where prints %s although no version is selectable (%s %s %s)" % (wp, mode, head, _pv(versions)), art)
            else:
                if o.res.exit != 0 or not wp.endswith("e.task.%d" % want[0]):
                    viol("where:wrong-version", "cond where -> %r (exit %r), rule selects %s (%s HEAD %s versions %s)"
                         % (wp, o.res.exit, _pv1(want), mode, head, _pv(versions)), art)
            # cond run (default)
            _check_run(run(["run", "//:top"]), want, False, "default", art, viol, versions)
            _check_run(run(["run", "//:top", "--again"]), want, True, "again", art, viol, versions)
            if mode == "git":
                for c in range(n):
                    for spelling in (hname(c), "ref-%d" % c):
                        o = run(["run", "//:top", "--at-least", spelling])
                        if hname(c) not in ref.reach(commits, hname(head)):
                            _expect_error(o, "at-least-not-ancestor", art, viol)
                        else:
                            _check_run(o, want, ref.at_least_rerun(want, commits, hname(c)), "at-least" if spelling == hname(c) else "at-least-symbol",
                                       dict(art, at_least=c), viol, versions)
                o = run(["run", "//:top", "--this-commit"])
                _check_run(o, want, ref.at_least_rerun(want, commits, hname(head)), "this-commit", art, viol, versions)
                _expect_error(run(["run", "//:top", "--at-least", "nosuchref"]), "bad-symbol", art, viol)
                _expect_error(run(["run", "//:top", "--at-least", hname(head), "--this-commit"]), "both-flags", art, viol)
                _expect_error(run(["run", "//:top", "--at-least", hname(head), "--again"]), "again-and-commit", art, viol)
            else:
                _expect_error(run(["run", "//:top", "--this-commit"]), "flag-without-git", art, viol)
                _expect_error(run(["run", "//:top", "--at-least", hname(0)]), "flag-without-git", art, viol)
    res["sample"] = {"dag_parents": item["dag"], "commands": ["where //:e", "run //:top", "run //:top --at-least C", "run //:top --again"]}


def _expect_error(o, tag, art, viol):
    spawns = [e for e in o.vk.log if e[0] == "spawn"]
    if o.res.exit == 0 or o.res.exc is not None or spawns or not o.res.err_text.startswith("ERROR:"):
        viol("flags:%s" % tag, "expected a clean error and no execution; exit %r exc %r spawns %d stderr %r"
             % (o.res.exit, o.res.exc, len(spawns), o.res.err_text[:200]), dict(art, argv=o.scn["argv"]))


def _check_run(o, want, must_run, tag, art, viol, versions):
    """want: reference-selected version; must_run: whether //:e must execute"""
    if o.res.exit != 0 or o.res.exc is not None:
        viol("run:%s:failed" % tag, "cond run exits %r %r: %s" % (o.res.exit, o.res.exc, o.res.err_text[:300]), dict(art, argv=o.scn["argv"]))
        return
    spawns = {e[2]: e[3] for e in o.vk.log if e[0] == "spawn"}
    ran = "//:e" in spawns
    should = must_run or want is None
    if ran != should:
        viol("run:%s:%s" % (tag, "runs-instead-of-reusing" if ran else "reuses-instead-of-running"),
             "cond run %s: //:e %s, documented rule: %s (selected %s, versions %s)"
             % (o.scn["argv"][2:], "ran" if ran else "cached", "run" if should else "reuse", _pv1(want), _pv(versions)),
             dict(art, argv=o.scn["argv"]))
        return
    top = spawns.get("//:top")
    if top is None:
        viol("run:%s:top-not-run" % tag, "//:top was not spawned", dict(art, argv=o.scn["argv"]))
        return
    deps = top["deps"]
    if ran:
        exp_dep = spawns["//:e"]["out"]
    else:
        exp_dep = os.path.join(o.root, "cond-out", "e.task.%d" % want[0])
    if deps != exp_dep:
        viol("run:%s:deps-wrong-version" % tag, "dependent received COND_DEPS=%r, expected %r" % (deps, exp_dep), dict(art, argv=o.scn["argv"]))


# ------------------------------------------------------------------------------------- fake git <-> real git
EMPTY_TREE = "4b825dc642cb6eb9a060e54bf8d69288fbee4904"
GENV = {"GIT_AUTHOR_NAME": "a", "GIT_AUTHOR_EMAIL": "a@x", "GIT_COMMITTER_NAME": "a", "GIT_COMMITTER_EMAIL": "a@x",
        "GIT_AUTHOR_DATE": "2020-01-01T00:00:00Z", "GIT_COMMITTER_DATE": "2020-01-01T00:00:00Z",
        "GIT_CONFIG_NOSYSTEM": "1", "HOME": "/nonexistent"}


def _git(root, *args, check=True):
    env = dict(os.environ)
    env.update(GENV)
    r = subprocess.run(["git"] + list(args), cwd=root, env=env, capture_output=True, text=True)
    if check and r.returncode != 0:
        raise RuntimeError("git %s failed: %s" % (args, r.stderr))
    return r.stdout.strip()


def build_real_repo(dag, name="c05g"):
    root = driver.fresh_project({"COND": ""}, name=name)
    _git(root, "init", "-q")
    hashes = []
    for i, ps in enumerate(dag):
        args = ["commit-tree", EMPTY_TREE, "-m", "c%d" % i]
        for p in ps:
            args += ["-p", hashes[p]]
        hashes.append(_git(root, *args))
    return root, hashes


class _quiet_stderr:
    """real git writes 'fatal: ...' for unknown hashes straight to fd 2"""

    def __enter__(self):
        self.saved = os.dup(2)
        self.null = os.open(os.devnull, os.O_WRONLY)
        os.dup2(self.null, 2)

    def __exit__(self, *a):
        os.dup2(self.saved, 2)
        os.close(self.saved)
        os.close(self.null)


def _gitconf(item, res, viol):
    with _quiet_stderr():
        _gitconf_inner(item, res, viol)


def _gitconf_inner(item, res, viol):
    from conductor.utils.git import Git
    m = driver.mods()
    dag = [tuple(p) for p in item["dag"]]
    root, hashes = build_real_repo(dag)
    commits = {hashes[i]: [hashes[p] for p in ps] for i, ps in enumerate(dag)}
    real = Git(pathlib.Path(root))
    for head in range(len(dag)):
        _git(root, "update-ref", "--no-deref", "HEAD", hashes[head])
        fake = fakegit.FakeGit(commits=commits, head=hashes[head], is_repo=True, dirty=False)

        def both(fn):
            def safe(g):
                try:
                    return fn(g)
                except Exception as ex:  # noqa - compared as a value: real and fake must fail alike
                    return "raises:%s" % type(ex).__name__
            a = safe(real)
            with driver.patched(driver.git_seam(fake)):
                b = safe(Git(pathlib.Path(root)))
            return a, b

        queries = [("is_used", lambda g: g.is_used()),
                   ("current_commit", lambda g: (lambda c: None if c is None else (c.hash, c.has_changes))(g.current_commit())),
                   ("rev_parse:HEAD", lambda g: g.rev_parse("HEAD")),
                   ("rev_parse:unknown", lambda g: g.rev_parse("nosuchref"))]
        allh = hashes + [UNKNOWN]
        for a in allh:
            queries.append(("rev_parse:%s" % a[:6], lambda g, a=a: g.rev_parse(a) if a != UNKNOWN else None))
            for b in allh:
                queries.append(("is_ancestor", lambda g, a=a, b=b: g.is_ancestor(a, b)))
                queries.append(("distance", lambda g, a=a, b=b: _dist(g, a, b)))
        for name, fn in queries:
            res["evals"] += 1
            res["transitions"] += 1
            ra, rb = both(fn)
            res["traces_validated"] += 1
            if ra != rb:
                viol("gitconf:%s" % name.split(":")[0], "real git -> %r, fake git -> %r for %s on DAG %s HEAD %d" % (ra, rb, name, item["dag"], head),
                     {"kind": "gitconf", "dag": item["dag"]})
        # graph-theoretic reference for the two relations Conductor relies on
        for a in hashes:
            for b in hashes:
                want_anc = b in ref.reach(commits, a)
                try:
                    real_anc = real.is_ancestor(a, b)
                except Exception as ex:  # noqa
                    real_anc = "raises:%s" % type(ex).__name__
                if real_anc != want_anc:
                    viol("gitconf:reference-ancestor", "reference ancestor relation disagrees with real git", {"kind": "gitconf", "dag": item["dag"]})
                if _dist(real, a, b) != len(ref.reach(commits, a) - ref.reach(commits, b)):
                    viol("gitconf:reference-distance", "reference distance disagrees with real git", {"kind": "gitconf", "dag": item["dag"]})
    res["states"].add(explore.sig(["gitconf", item["dag"]]))
    res["sigs"].add(explore.sig(["gitconf", item["dag"]]))
    res["sample"] = {"real_repo_dag_parents": item["dag"], "queries": "is_used, current_commit, rev_parse, is_ancestor, get_distance on all ordered pairs + unknown hash"}


def _realgit(item, res, viol):
    """`cond where` (conductor.lib.path.where) in a real git repository with this commit graph: the version it reports
    must be the one the documented rule selects."""
    import conductor.lib.path as libpath
    dag = [tuple(p) for p in item["dag"]]
    n = len(dag)
    root, hashes = build_real_repo(dag, name="c05real")
    with open(os.path.join(root, "COND"), "w") as f:
        f.write(COND)
    commits = {hashes[i]: [hashes[p] for p in ps] for i, ps in enumerate(dag)}
    labels = [None, UNKNOWN] + hashes
    seqs = []
    for k in range(0, item["kmax"] + 1):
        for seq in itertools.product(labels, repeat=k):
            seqs.append([(100 * (j + 1), c) for j, c in enumerate(seq)])
    idx = os.path.join(root, "cond-out", "version_index.sqlite")
    old = os.getcwd()
    try:
        for head in range(n):
            _git(root, "update-ref", "--no-deref", "HEAD", hashes[head])
            for versions in seqs:
                if os.path.exists(idx):
                    os.unlink(idx)
                driver.make_index(idx, [("//:e", ts, c, 0) for ts, c in versions])
                for ts, c in versions:
                    os.makedirs(os.path.join(root, "cond-out", "e.task.%d" % ts), exist_ok=True)
                os.chdir(root)
                res["evals"] += 1
                res["transitions"] += 1
                res["traces_validated"] += 1
                want = ref.select_version(versions, "git", commits, hashes[head])
                try:
                    p = libpath.where("//:e")
                    got = None if p is None else int(p.name.rsplit(".", 1)[1])
                except Exception as ex:  # noqa
                    got = "error:%s" % type(ex).__name__
                os.chdir(old)
                res["states"].add(explore.sig(["realgit", item["dag"], head, [(t, labels.index(c)) for t, c in versions]]))
                if versions:
                    res["sigs"].add(explore.sig(["realgit", item["dag"], head, [(t, labels.index(c)) for t, c in versions]]))
                if got != (None if want is None else want[0]):
                    names = {h: "c%d" % i for i, h in enumerate(hashes)}
                    pv = [(t, names.get(c, c and c[:4])) for t, c in versions]
                    viol("realgit:wrong-version", "real repository, parents %s, HEAD c%d, versions %s: cond where selects %s, documented rule selects %s"
                         % (item["dag"], head, pv, got, None if want is None else want[0]), {"kind": "realgit", "dag": item["dag"], "kmax": item["kmax"]})
    finally:
        os.chdir(old)
    res["sample"] = {"real_git_repository_parents": item["dag"], "versions_per_case": "<=%d" % item["kmax"], "via": "conductor.lib.path.where"}


def _dist(g, a, b):
    try:
        return g.get_distance(a, b)
    except RuntimeError:
        return "error"


def _gitconf_special(res, viol):
    with _quiet_stderr():
        _gitconf_special_inner(res, viol)


def _gitconf_special_inner(res, viol):
    from conductor.utils.git import Git
    m = driver.mods()
    # not a repository
    root = driver.fresh_project({"COND": ""}, name="c05n")
    env_root = pathlib.Path(root)
    cases = [("norepo", fakegit.FakeGit(is_repo=False), None)]
    root2 = os.path.join(os.path.dirname(root), "c05n2")
    import shutil
    shutil.rmtree(root2, ignore_errors=True)
    os.makedirs(root2)
    _git(root2, "init", "-q")
    cases.append(("nocommits", fakegit.FakeGit(commits={}, head=None, is_repo=True), root2))
    # dirty work tree: index differs from HEAD
    root3, hashes = build_real_repo([()], name="c05n3")
    _git(root3, "update-ref", "--no-deref", "HEAD", hashes[0])
    with open(os.path.join(root3, "f"), "w") as f:
        f.write("x")
    _git(root3, "add", "f")
    cases.append(("dirty", fakegit.FakeGit(commits={hashes[0]: []}, head=hashes[0], is_repo=True, dirty=True), root3))
    for name, fake, r in cases:
        rr = pathlib.Path(r) if r else env_root
        env = dict(os.environ)
        # make sure an enclosing repository cannot be found for the norepo case
        real = Git(rr)
        for qn, fn in (("is_used", lambda g: g.is_used()),
                       ("current_commit", lambda g: (lambda c: None if c is None else (c.hash, c.has_changes))(g.current_commit())),
                       ("rev_parse", lambda g: g.rev_parse("HEAD")),
                       ("is_ancestor", lambda g: g.is_ancestor("a" * 40, "b" * 40))):
            res["evals"] += 1
            res["transitions"] += 1
            def safe(g):
                try:
                    return fn(g)
                except Exception as ex:  # noqa
                    return "raises:%s" % type(ex).__name__
            a = safe(real)
            with driver.patched(driver.git_seam(fake)):
                b = safe(Git(rr))
            res["traces_validated"] += 1
            if a != b:
                viol("gitconf:%s:%s" % (name, qn), "real git -> %r, fake git -> %r (%s)" % (a, b, name), {"kind": "gitconf-special"})
    res["states"].add("gitconf-special")
    res["sigs"].update({"gitconf-norepo", "gitconf-nocommits", "gitconf-dirty"})
    res["sample"] = {"special": ["not a repository", "repository without commits", "dirty index"]}


def replay(artefact):
    k = artefact["kind"]
    if k == "select":
        item = {"kind": "select", "dag": artefact["dag"], "kmax": len(artefact["versions"]), "kmin": len(artefact["versions"])}
    elif k == "e2e":
        item = {"kind": "e2e", "dag": artefact["dag"], "kmax": len(artefact["versions"]), "kmin": len(artefact["versions"])}
    elif k == "gitconf":
        item = {"kind": "gitconf", "dag": artefact["dag"]}
    elif k == "realgit":
        item = {"kind": "realgit", "dag": artefact["dag"], "kmax": artefact["kmax"]}
    else:
        item = {"kind": "gitconf-special"}
    r = run_item(item, "quick")
    return [(v["key"], v["what"]) for v in r["violations"]]
