"""C08 - every experiment execution gets a fresh, unique version directory."""
import itertools
import os
import re
import shutil

from .. import driver, explore, fakegit, hist

ID = "C08"
LEVEL = "model_checking"
RULE = ("exhaustive exploration of command histories of depth <=3 (quick; thorough: depth 4 below every second 2-command prefix) from the empty project over the alphabet "
        "{run ok, run with e1 failing, run with e2 failing, run interrupted by SIGINT while e2 runs, restore of an archive whose ids are "
        "older than the clock, restore of an archive whose ids are in the future, gc} x wall-clock step per command {+0 s, +1 s, -5 s}, plus "
        "the user editing a file in every recorded version directory; "
        "each command is the real command executed in-process on the directory state left by its predecessors (runs under the virtual "
        "kernel). states = distinct canonical project states (rows + Merkle digest of cond-out); transitions = commands executed. "
        "invariants: at every experiment spawn the version id exceeds every id recorded in the project and every id handed out "
        "earlier in the invocation, the id recorded for an execution is the id of the directory it ran in, COND_OUT did not exist before the command and holds nothing but Conductor's own empty log files; "
        "the digest of every recorded version directory is unchanged by every later command and unchanged between the moment its row "
        "is committed and the end of the invocation (one task leaves a background process that holds stdout open past the shell's exit)"
        " The same commands are also run on a variant of the project whose last task lists its dependency twice in two spellings."
        " Interrupts: ConductorAbort injected at every executed line, eval-breaker instruction and after every pure C call of a `cond run` of 1-2 experiments: no recorded version's directory is deleted."
        ' One of the three experiments lives in a nested package (//p/q:e0) so that per-package output paths are exercised.')
ASSUMPTIONS = [
    "'empty when the command starts' is read modulo Conductor's own stdout.log/stderr.log (opened before the spawn in slot mode)",
    "clean is not in the alphabet (it is the one command allowed to remove recorded versions)",
]
CHUNK = 2

COND = 'run_experiment(name="e1", run="./e1.sh", deps=["//p/q:e0"])\nrun_experiment(name="e2", run="./e2.sh", deps=[":e1"], parallelizable=True)\n'
COND_PQ = 'run_experiment(name="e0", run="./e0.sh")\n'
# the same project, but e2 names its dependency twice in two spellings (a definition Conductor must refuse; if it does not, the
# execution invariants below still have to hold for whatever it runs)
COND_DUP = COND.replace('deps=[":e1"]', 'deps=[":e1", "//:e1"]')
CONDS = {"std": COND, "dup": COND_DUP}
BEH_OK = {"//:e1": {"files": {"result": "r1"}}, "//:e2": {"files": {"result": "r2"}}, "//p/q:e0": {"files": {"result": "r0"}}}
CMDS = ["ok", "ok-j2", "fail-e0", "fail-e1", "fail-e2", "sigint-e2", "restore-old", "restore-new", "gc"]
STEPS = [0, 1, -5]
T0 = 1_700_000_000
VERS = re.compile(r"\.task\.(\d+)$")


def warmup():
    driver.mods()


def make_archives():
    out = {}
    for name, t in (("old", T0 - 1000), ("new", T0 + 1_000_000)):
        root = driver.fresh_project({"COND": COND, "p/q/COND": COND_PQ}, name="c08src")
        hist.run(root, ["run", "//:e2"], clock=driver.Clock(t), behaviours=BEH_OK)
        arch = os.path.join(root, "A.tar.gz")
        r = hist.run(root, ["archive", "-o", arch])
        assert r.exit == 0
        with open(arch, "rb") as f:
            out[name] = f.read()
    return out


def items(tier):
    letters = [(c, s) for c in CMDS for s in STEPS] + [("edit", 0)]
    out = []
    for i, a in enumerate(letters):
        for j, b in enumerate(letters):
            # thorough: depth 4 below every second two-command prefix, depth 3 below the others
            out.append({"prefix": [list(a), list(b)], "depth": 4 if (tier == "thorough" and (i + j) % 2 == 0) else 3})
    for a in ("ok", "ok-j2", "fail-e1"):
        for b in ("ok", "ok-j2"):
            out.append({"prefix": [[a, 1], [b, 1]], "depth": 2, "cond": "dup"})
    # "a recorded version's directory is deleted only by `cond clean`" under interrupts: ConductorAbort injected at every line, every
    # eval-breaker instruction and after every pure C call (e.g. right after sqlite's commit returned) of a `cond run` (family shared with C06)
    from . import c06
    out += [dict(i, kind="abort") for i in c06.abort_items(tier)]
    return out


def do_command(root, cmd, clock_t, archives, check):
    """Execute one command; check(kind, ...) collects violations.  Returns description."""
    rows_before = hist.rows(root) or []
    tree_before = hist.data_tree(root)
    recorded = {os.path.join(r[0][2:].split(":")[0], "%s.task.%d" % (r[0].split(":")[1], r[1])): None for r in rows_before}
    for d in recorded:
        recorded[d] = hist.subtree(tree_before, d)
    listing_before = {k for k, v in tree_before.items() if v[0] == "d"}
    ck = driver.Clock(clock_t)
    res = None
    if cmd in ("ok", "ok-j2", "fail-e0", "fail-e1", "fail-e2", "sigint-e2"):
        beh = {k: dict(v) for k, v in BEH_OK.items()}
        if cmd == "fail-e0":
            beh["//p/q:e0"]["status"] = 256
        if cmd == "fail-e1":
            beh["//:e1"]["status"] = 256
        if cmd == "fail-e2":
            beh["//:e2"]["status"] = 9
        if cmd == "sigint-e2":
            beh["//:e2"]["sigint_while_running"] = True
        # e1 (never in a slot: its output is tee'd by Conductor's own threads) leaves a background process behind that
        # keeps stdout open and writes a last line after the shell has exited; it exits once Conductor waits for the output
        beh["//:e1"]["stdout"] = "early\n"
        beh["//:e1"]["linger"] = "late\n"
        argv = ["run", "//:e2", "--again"] + (["-j", "2"] if cmd == "ok-j2" else [])
        from .. import vk as vkmod
        vk = vkmod.VK(behaviours=explore.behaviours_from_json(beh), project_root=root)
        at_commit = {}
        known = {(r[0], r[1]) for r in rows_before}
        import concurrent.futures as cf
        import sqlite3
        busy = []

        def observe_commit():
            """Right after a transaction commits: remember what the directory of every newly recorded version looks like."""
            if busy:
                return
            busy.append(1)
            try:
                t = None
                for r in hist.rows(root) or []:
                    if (r[0], r[1]) in known:
                        continue
                    known.add((r[0], r[1]))
                    if t is None:
                        t = hist.data_tree(root)
                    d = os.path.join(r[0][2:].split(":")[0], "%s.task.%d" % (r[0].split(":")[1], r[1]))
                    at_commit[d] = hist.subtree(t, d)
            finally:
                busy.pop()

        class ObservedConnection(sqlite3.Connection):
            def commit(self_):
                super().commit()
                observe_commit()

            def __exit__(self_, et, ev, tb):
                r = super().__exit__(et, ev, tb)
                if et is None:
                    observe_commit()
                return r

        real_connect, real_result = sqlite3.connect, cf.Future.result

        def connect(*a, **kw):
            kw.setdefault("factory", ObservedConnection)
            return real_connect(*a, **kw)

        def result(self_, timeout=None):
            # Conductor starts waiting for a background job (the tee threads): the lingering grandchildren exit now
            vk.release_lingering()
            return real_result(self_, timeout)

        sqlite3.connect, cf.Future.result = connect, result
        try:
            res = driver.run_cli(argv, root, vk=vk, git=fakegit.NO_GIT, clock=ck, timeout=8)
        finally:
            sqlite3.connect, cf.Future.result = real_connect, real_result
        if getattr(res, "timed_out", False):
            check("run:hang", "cond run did not come back within 8 s")
        t_end = hist.data_tree(root)
        for d, sub in at_commit.items():
            now = hist.subtree(t_end, d)
            if now != sub:
                diff = sorted(k for k in set(sub) | set(now) if sub.get(k) != now.get(k))
                check("recorded:written-after-record", "version directory %s was still being written after its version was recorded "
                      "(entries that changed after the commit: %s)" % (d, diff[:4]))
        maxrow = max([r[1] for r in rows_before], default=0)
        last = maxrow
        for e in vk.log:
            if e[0] != "spawn":
                continue
            info = e[3]
            m = VERS.search(info["out"] or "")
            if not m:
                check("spawn:no-version", "experiment %s spawned with unversioned COND_OUT %r" % (e[2], info["out"]))
                continue
            v = int(m.group(1))
            if v <= maxrow:
                check("version:not-greater-than-recorded", "%s got version %d but %d is already recorded in the project" % (e[2], v, maxrow))
            if v <= last and last != maxrow:
                check("version:not-increasing", "%s got version %d after %d was handed out in the same invocation" % (e[2], v, last))
            last = max(last, v)
            base = os.path.relpath(info["out"], os.path.join(root, "cond-out"))
            if base in listing_before:
                check("dir:reused", "%s was given COND_OUT %s which already existed before the command (leftover of an earlier execution)" % (e[2], base))
            junk = [x for x in (info["out_listing"] or []) if x not in ("stdout.log", "stderr.log")]
            if info["out_listing"] is None:
                check("dir:missing", "COND_OUT %s did not exist at spawn" % base)
            elif junk:
                check("dir:not-empty", "%s started with a non-empty COND_OUT %s: %s" % (e[2], base, junk))
        # the id recorded for an execution is the id of the directory that execution was given
        given = set()
        for e in vk.log:
            if e[0] == "spawn":
                m_ = VERS.search(e[3]["out"] or "")
                if m_:
                    given.add((e[2], int(m_.group(1))))
        for r_ in hist.rows(root) or []:
            if (r_[0], r_[1]) not in {(x[0], x[1]) for x in rows_before} and (r_[0], r_[1]) not in given:
                check("version:recorded-id-not-the-directory", "version %d was recorded for %s, but its execution ran in %s"
                      % (r_[1], r_[0], sorted(v for k, v in given if k == r_[0])))
        if res.exc is not None and type(res.exc).__name__ != "ConductorAbort":
            check("run:internal-error", "cond run died with %r" % (res.exc,))
    elif cmd in ("restore-old", "restore-new"):
        arch = os.path.join(root, "R.tar.gz")
        with open(arch, "wb") as f:
            f.write(archives[cmd.split("-")[1]])
        res = hist.run(root, ["restore", arch], clock=ck)
        os.unlink(arch)
    elif cmd == "gc":
        res = hist.run(root, ["gc"], clock=ck)
    elif cmd == "edit":
        # the user annotates the results of every recorded version (the one step that may change those directories)
        for d in recorded:
            with open(os.path.join(root, "cond-out", d, "result"), "a") as f:
                f.write("# checked by hand\n")
        return None
    tree_after = hist.data_tree(root)
    for d, sub in recorded.items():
        if hist.subtree(tree_after, d) != sub or tree_after.get(d) != ("d",):
            check("recorded:modified", "recorded version directory %s was modified or removed by `%s`" % (d, cmd))
    # every recorded version has its DONE marker and no PARTIAL-only directory (finished output)
    return res


def run_item(item, tier):
    res = {"evals": 0, "sigs": set(), "states": set(), "transitions": 0, "violations": [], "counters": {}, "sample": None}
    found = {}
    if item.get("kind") == "abort":
        from . import c06

        def viol(key, what, art):
            if key == "abort:row-without-directory":
                found.setdefault("interrupt:recorded-directory-deleted", (what, dict(art, kind="abort")))
        c06.run_abort(item, res, viol, only_target=item.get("only_target"))
        res["transitions"] = res["evals"]
        for key, (what, art) in found.items():
            res["violations"].append({"key": key, "what": what, "artefact": art})
        return res
    archives = make_archives()
    letters = [(c, s) for c in CMDS for s in STEPS] + [("edit", 0)]
    root = driver.fresh_project({"COND": CONDS[item.get("cond", "std")], "p/q/COND": COND_PQ}, name="c08")
    os.makedirs(os.path.join(root, "cond-out"), exist_ok=True)

    def explore_from(history, clock_t, depth_left):
        """state on disk = result of history"""
        if depth_left == 0:
            return
        snap = hist.snapshot(root, os.path.join(driver.scratch_root(), "c08snap%d" % depth_left))
        for (c, s) in letters:
            if "run:hang" in found:
                break     # every further history through the same fault would cost another watchdog period
            hist.restore_snapshot(snap, root)
            h2 = history + [[c, s]]
            t2 = clock_t + s
            step(h2, t2)
            explore_from(h2, t2, depth_left - 1)
        shutil.rmtree(snap, ignore_errors=True)

    def step(history, clock_t):
        c, s = history[-1]

        def check(key, what):
            found.setdefault(key, (what + "  [history %s]" % history, {"history": history, "cond": item.get("cond", "std")}))

        do_command(root, c, clock_t, archives, check)
        res["evals"] += 1
        res["transitions"] += 1
        res["sigs"].add(explore.sig(history))
        rows = hist.rows(root) or []
        # canonical state: ids renumbered order-preservingly relative to the clock
        ids = sorted({r[1] for r in rows})
        ren = {v: i for i, v in enumerate(ids)}
        t = hist.data_tree(root)
        canon_tree = sorted((re.sub(r"\.task\.(\d+)", lambda m: ".task.#%d" % ren.get(int(m.group(1)), -1), k), v[0]) for k, v in t.items())
        res["states"].add(explore.sig([[(r[0], ren[r[1]]) for r in rows], canon_tree]))

    t = T0
    hist_so_far = []
    for c, s in item["prefix"]:
        t += s
        hist_so_far.append([c, s])
        step(hist_so_far, t)
    explore_from(hist_so_far, t, item["depth"] - len(item["prefix"]))
    res["sample"] = {"history": item["prefix"] + [["ok", 0]], "clock_steps": STEPS}
    for key, (what, art) in found.items():
        res["violations"].append({"key": key, "what": what, "artefact": art})
    return res


def replay(artefact):
    found = {}
    if artefact.get("kind") == "abort":
        r = run_item({"kind": "abort", "case": artefact["case"], "case_index": artefact["case_index"], "granularity": artefact["granularity"],
                      "chunk": 0, "nchunks": 1, "only_target": artefact["target"]}, "quick")
        return [(v["key"], v["what"]) for v in r["violations"]]
    archives = make_archives()
    root = driver.fresh_project({"COND": CONDS[artefact.get("cond", "std")], "p/q/COND": COND_PQ}, name="c08")
    os.makedirs(os.path.join(root, "cond-out"), exist_ok=True)
    t = T0
    for c, s in artefact["history"]:
        t += s
        do_command(root, c, t, archives, lambda key, what: found.setdefault(key, what))
    return list(found.items())
