"""C17 - commands behave the same from any directory inside the project."""
import os
import shutil

from .. import driver, explore, fakegit, hist

ID = "C17"
LEVEL = "exploration"
RULE = ("sub-commands {run (ok, failing, --check, -j2, --again), where (-p, -f), archive (all, task, --latest, default name and -o), "
        "restore, gc (-n, -v, -n -v), clean -f} x project states {empty, after runs, with failed leftovers, emptied with an archive at "
        "hand, after restore} x every directory under the root of a project with packages a/ and a/b/, a directory without COND "
        "(nocond/, nocond/deep/), cond-out/ and cond-out/a/; differential oracle against the invocation from the root on an identical "
        "snapshot: same exit status, same resulting cond-out digest and index rows, same output after resolving printed relative paths "
        "against the invoking directory; plus nearest-ancestor root discovery with a nested project and a cwd outside any project. "
        "non-trivial = invocation from a directory other than the root; distinct = distinct (state, command, directory)"
        ' COND files use //-rooted and relative include() with look-alike files in other directories; one state is a real git repository (two commits, a version recorded at the first) containing an unrelated nested repository, exercised with --this-commit / --at-least / where through the real git.')
ASSUMPTIONS = [
    "path *arguments* (-o, archive file) are given as absolute paths: relative path arguments are by definition cwd-relative",
    "the explorer sub-command (a web server) is excluded",
]
CHUNK = 1

COND_A = ('include("//defs.cond")\ninclude("local.cond")\n'
          'run_experiment(name="x", run="./x.sh", args=[WHERE, LOCAL])\nrun_command(name="fail", run="./fail.sh", deps=[":x"])\n'
          'run_command(name="never", run="./n.sh")\n')
COND_AB = ('run_experiment(name="t", run="./t.sh", deps=["//a:x"], parallelizable=True)\nrun_experiment(name="u", run="./u.sh", parallelizable=True)\ngroup(name="g", deps=[":t", ":u"])\n'
           # graph errors whose messages name a file: the location must designate the same file from every directory
           'run_command(name="cyc1", run="true", deps=[":cyc2"])\nrun_command(name="cyc2", run="true", deps=["//a/b:cyc1"])\n'
           'run_command(name="dangling", run="true", deps=["//a:nope"])\n')
FILES = {"COND": 'combine(name="top", deps=["//a/b:t", "//a:x"])\n', "a/COND": COND_A, "a/b/COND": COND_AB,
         "nocond/deep/readme": "x", "cond-out/a/.keep": "",
         # directories whose path is a character-wise prefix of cond-out / of an archive destination without being an ancestor
         "c/.keep": "", "cond/.keep": "", "back/.keep": "",
         # include() targets: the project-rooted one must come from the root from every cwd; look-alikes in other directories
         "defs.cond": 'WHERE = "project-wide"\n', "a/defs.cond": 'WHERE = "package-a"\n', "a/b/defs.cond": 'WHERE = "package-ab"\n',
         "nocond/defs.cond": 'WHERE = "nocond"\n', "a/local.cond": 'LOCAL = "a-local"\n', "local.cond": 'LOCAL = "root-local"\n',
         "a/b/local.cond": 'LOCAL = "ab-local"\n'}
DIRS = [".", "a", "a/b", "nocond", "nocond/deep", "cond-out", "cond-out/a", "cond-out/a/zz.task.77", "cond-out/a/zz.task.77/sub",
        "c", "cond", "back"]
BEH = {"//a:fail": {"status": 256 * 3}}


def states():
    def base():
        return driver.fresh_project(FILES, name="c17")

    def s_empty():
        return base()

    def s_runs():
        r = base()
        hist.run(r, ["run", "//:top"], clock=driver.Clock(1_700_000_000), behaviours=BEH)
        hist.run(r, ["run", "//a/b:g", "--again"], clock=driver.Clock(1_700_000_010), behaviours=BEH)
        return r

    def s_failed():
        r = s_runs()
        hist.run(r, ["run", "//a/b:g", "--again"], clock=driver.Clock(1_700_000_020), behaviours={"//a/b:t": {"status": 256}})
        hist.run(r, ["run", "//a:fail"], clock=driver.Clock(1_700_000_030), behaviours=BEH)
        return r

    def s_emptied():
        r = s_runs()
        hist.run(r, ["archive", "-o", os.path.join(r, "arch.tar.gz")], clock=driver.Clock(1_700_000_040))
        hist.run(r, ["clean", "--force"])
        os.makedirs(os.path.join(r, "cond-out", "a"), exist_ok=True)
        return r

    def s_restored():
        r = s_emptied()
        hist.run(r, ["restore", os.path.join(r, "arch.tar.gz")])
        os.makedirs(os.path.join(r, "cond-out", "a"), exist_ok=True)
        os.makedirs(os.path.join(r, "cond-out", "a", "x.task.77"), exist_ok=True)  # an unrecorded leftover
        return r

    def s_gitnested():
        """The project is a real git repository (two commits, a version recorded at the first); nocond/ is an unrelated
        nested repository of its own."""
        r = base()
        g = lambda d, *a: _git(os.path.join(r, d), *a)
        g(".", "init", "-q")
        g(".", "add", "COND", "a", "defs.cond", "local.cond", "cond_config.toml")
        g(".", "commit", "-q", "-m", "c1")
        hist.run(r, ["run", "//a:x"], clock=driver.Clock(1_700_000_000), behaviours=BEH, git=fakegit.RealGit())
        with open(os.path.join(r, "a", "COND"), "a") as f:
            f.write("# changed\n")
        g(".", "commit", "-q", "-am", "c2")
        g("nocond", "init", "-q")
        g("nocond", "add", "defs.cond")
        g("nocond", "commit", "-q", "-m", "unrelated")
        return r

    return {"empty": s_empty, "runs": s_runs, "failed": s_failed, "emptied": s_emptied, "restored": s_restored, "gitnested": s_gitnested}


GENV = {"GIT_AUTHOR_NAME": "a", "GIT_AUTHOR_EMAIL": "a@x", "GIT_COMMITTER_NAME": "a", "GIT_COMMITTER_EMAIL": "a@x",
        "GIT_AUTHOR_DATE": "2020-01-01T00:00:00Z", "GIT_COMMITTER_DATE": "2020-01-01T00:00:00Z", "GIT_CONFIG_NOSYSTEM": "1", "HOME": "/nonexistent"}


def _git(cwd, *args):
    import subprocess
    p = subprocess.run(["git"] + list(args), cwd=cwd, env=dict(os.environ, **GENV), capture_output=True, text=True)
    if p.returncode != 0:
        raise RuntimeError("git %r failed: %s" % (args, p.stderr))
    return p.stdout.strip()


GIT_COMMANDS = [["run", "//a:x", "--this-commit"], ["run", "//a:x", "--at-least", "HEAD~1"], ["run", "//a:x", "--at-least", "HEAD"],
                ["run", "//a/b:g"], ["where", "//a:x"], ["run", "//a:x", "--at-least", "no-such-ref"]]


def commands(root):
    A = os.path.join(root, "out-archive.tar.gz")
    cmds = [
        ["run", "//a/b:g"], ["run", "//a/b:g", "--check"], ["run", "//a/b:g", "-j", "2", "--again"], ["run", "//a:fail"],
        ["run", "//:top", "--again"], ["run", "//nope:t"], ["run", "//a/b:cyc1"], ["run", "//a/b:cyc2", "--check"], ["run", "//a/b:dangling"],
        ["archive", "//a/b:cyc1"],
        ["where", "//a:x"], ["where", "//a:x", "-p"], ["where", "//a:never", "-f"], ["where", "//a:never"], ["where", "//a/b:t", "-p"],
        ["where", "//:top"],
        ["archive"], ["archive", "//a/b:g"], ["archive", "--latest"], ["archive", "-o", A], ["archive", "//a:x", "-l", "-o", A],
        ["restore", os.path.join(root, "arch.tar.gz")], ["restore", "REL:" + os.path.join(root, "arch.tar.gz")],
        ["archive", "-o", "REL:" + os.path.join(root, "backups", "rel.tar.gz")], ["archive", "-o", "REL:" + os.path.join(root, "backups")],
        ["archive", "//a:x", "-o", "REL:" + os.path.join(root, "nocond", "deep", "x.tar.gz")],
        ["gc"], ["gc", "-n"], ["gc", "-v"], ["gc", "-n", "-v"],
        ["clean", "-f"],
        # identifiers spelled without the leading // (":name" = root package, "pkg:name"): a command-line identifier is always
        # project-relative, never relative to the invoking directory
        ["run", ":top", "--again"], ["run", ":top", "--check"], ["run", "a/b:g", "--again"], ["run", "a:fail"], ["run", ":x"],
        ["where", ":top"], ["where", "a:x", "-p"], ["where", ":x"], ["archive", "a:x", "-o", A],
    ]
    return cmds


def warmup():
    driver.mods()


def items(tier):
    out = [{"state": s, "cmd_index": i} for s in states() if s != "gitnested" for i in range(len(commands("/x")))]
    out += [{"state": "gitnested", "cmd_index": i} for i in range(len(GIT_COMMANDS))]
    out.append({"state": "nested"})
    out.append({"state": "via-symlink"})
    out.append({"state": "from-task-of-other-project"})
    return out


GIT_FOR_STATE = {}
RAN_FOR = __import__("re").compile(r"\(Ran for [^)]*\)")
PATH_PREFIXES = ("Would delete ", "Deleting ", "✨ Done! Archive saved as ", "-> Relevant file: ")
LINE_IN_FILE = __import__("re").compile(r"^(-> Line \d+ in file: )(.*)$")


def normalize(text, cwd, root):
    lines = []
    for l in text.splitlines():
        for p in PATH_PREFIXES:
            if l.startswith(p):
                path = l[len(p):]
                l = p + os.path.normpath(os.path.join(cwd, path))
        m_ = LINE_IN_FILE.match(l)
        if m_:
            l = m_.group(1) + os.path.normpath(os.path.join(cwd, m_.group(2)))
        lines.append(RAN_FOR.sub("(Ran for T)", l.replace(root, "<ROOT>")))
    return lines


def observe(root, snap, cmd, d, clock_t):
    hist.restore_snapshot(snap, root)
    for x in DIRS:
        os.makedirs(os.path.join(root, x), exist_ok=True)
    cwd = os.path.join(root, d)
    os.makedirs(os.path.join(root, "backups"), exist_ok=True)
    # "REL:<abs>" = the same file named relative to the invoking directory
    cmd = [("./" + os.path.relpath(c[4:], cwd)) if isinstance(c, str) and c.startswith("REL:") else c for c in cmd]
    r = hist.run(root, cmd, cwd=d, clock=driver.Clock(clock_t), behaviours=BEH, git=GIT_FOR_STATE.get("current"))
    extra = sorted(os.path.relpath(os.path.join(dp, f), root) for dp, _, fs in os.walk(root) for f in fs
                   if f.endswith(".tar.gz") and not os.path.relpath(dp, root).startswith("cond-out"))
    return {
        "exit": r.exit, "exc": None if r.exc is None else "%s: %s" % (type(r.exc).__name__, r.exc),
        "out": normalize(r.out_text, cwd, root), "err": normalize(r.err_text, cwd, root),
        "tree": hist.digest({k: v for k, v in hist.data_tree(root).items() if not k.endswith(".tar.gz") and k != "a/.keep" and k != "a"}),
        "archives_in_condout": sorted(k for k in hist.data_tree(root) if k.endswith(".tar.gz")),
        "rows": hist.rows(root), "root_archives": extra,
    }


def run_item(item, tier):
    res = {"evals": 0, "sigs": set(), "violations": [], "counters": {}, "sample": None}
    found = {}

    def viol(key, what, art):
        found.setdefault(key, (what, art))

    if item["state"] == "nested":
        _nested(res, viol)
    elif item["state"] in ("via-symlink", "from-task-of-other-project"):
        _environment(item["state"], res, viol)
    else:
        root = states()[item["state"]]()
        GIT_FOR_STATE["current"] = fakegit.RealGit() if item["state"] == "gitnested" else None
        cmd = (GIT_COMMANDS if item["state"] == "gitnested" else commands(root))[item["cmd_index"]]
        snap = hist.snapshot(root, root + "-snap")
        ref_obs = observe(root, snap, cmd, ".", 1_700_000_100)
        for d in DIRS[1:]:
            res["evals"] += 1
            o = observe(root, snap, cmd, d, 1_700_000_100)
            res["sigs"].add(explore.sig([item["state"], item["cmd_index"], d]))
            art = {"state": item["state"], "cmd_index": item["cmd_index"], "dir": d}
            shown = [c.replace(root, "<ROOT>") for c in cmd]
            if o["exc"] is not None or "Traceback" in "\n".join(o["err"]):
                viol("cwd:internal-error:%s" % cmd[0], "`cond %s` from %s/ dies with %s (from the root: exit %r)"
                     % (" ".join(shown), d, o["exc"], ref_obs["exit"]), art)
                continue
            for k in ("exit", "rows", "tree", "archives_in_condout", "root_archives", "out", "err"):
                if o[k] != ref_obs[k]:
                    viol("cwd:%s-differs:%s" % (k, cmd[0]), "`cond %s` from %s/: %s = %r, from the root %r"
                         % (" ".join(shown), d, k, o[k], ref_obs[k]), art)
                    break
        res["evals"] += 1
        res["sample"] = {"state": item["state"], "command": [c.replace(root, "<ROOT>") for c in cmd], "dirs": DIRS,
                         "exit_from_root": ref_obs["exit"]}
        shutil.rmtree(snap, ignore_errors=True)
    for key, (what, art) in found.items():
        res["violations"].append({"key": key, "what": what, "artefact": art})
    return res


def _environment(kind, res, viol):
    """The same command, same directory, different process environment: (a) the directory is entered through a symbolic link
    that lives outside the project and $PWD holds that logical path (what a shell does after `cd link`); (b) the command is started
    by a task of ANOTHER Conductor project (its whole task environment is inherited)."""
    root = states()["runs"]()
    snap = hist.snapshot(root, root + "-snap")
    cmds = [["where", "//a:x"], ["where", "//a/b:t", "-p"], ["run", "//a/b:g", "--check"], ["run", "//a/b:g", "--again"], ["gc", "-n"], ["archive", "//a:x"]]
    env_extra, entry = {}, None
    if kind == "via-symlink":
        entry = os.path.join(driver.scratch_root(), "c17-shortcut")
        if os.path.lexists(entry):
            os.unlink(entry)
        os.symlink(os.path.join(root, "a", "b"), entry)
        env_extra = {"PWD": entry}
    else:
        outer = driver.fresh_project({"COND": 'run_command(name="o", run="./o.sh")\n', "sub/COND": 'run_experiment(name="p", run="./p.sh", parallelizable=True)\n'}, name="c17outer")
        r0 = hist.run(outer, ["run", "//sub:p", "-j", "2"], clock=driver.Clock(1_700_000_000))
        envs = [p.env for p in r0.vk.procs.values() if p.env and p.env.get("COND_NAME") == "p"]
        if not envs:
            raise RuntimeError("outer task was not spawned")
        env_extra = {k: v for k, v in envs[0].items() if os.environ.get(k) != v}
    for i, cmd in enumerate(cmds):
        GIT_FOR_STATE["current"] = None
        ref_obs = observe(root, snap, cmd, "a/b", 1_700_000_100)
        hist.restore_snapshot(snap, root)
        for x in DIRS:
            os.makedirs(os.path.join(root, x), exist_ok=True)
        os.makedirs(os.path.join(root, "backups"), exist_ok=True)
        cwd = entry or os.path.join(root, "a/b")
        r = hist.run(root, cmd, cwd=cwd, clock=driver.Clock(1_700_000_100), behaviours=BEH, env=env_extra)
        res["evals"] += 1
        res["sigs"].add(explore.sig([kind, i]))
        o = {"exit": r.exit, "exc": None if r.exc is None else "%s: %s" % (type(r.exc).__name__, r.exc),
             "out": normalize(r.out_text, os.path.join(root, "a/b"), root), "err": normalize(r.err_text, os.path.join(root, "a/b"), root),
             "tree": hist.digest({k: v for k, v in hist.data_tree(root).items() if not k.endswith(".tar.gz") and k != "a/.keep" and k != "a"}),
             "rows": hist.rows(root)}
        art = {"state": kind, "cmd_index": i}
        for k in ("exc", "exit", "rows", "tree", "out", "err"):
            if o[k] != ref_obs[k]:
                viol("env:%s:%s-differs:%s" % (kind, k, cmd[0]), "`cond %s` in a/b, %s: %s = %r, ordinarily %r"
                     % (" ".join(cmd), "entered through a symbolic link outside the project with $PWD set to it" if kind == "via-symlink"
                        else "started with the environment of a task of another project", k, o[k], ref_obs[k]), art)
                break
    shutil.rmtree(snap, ignore_errors=True)
    res["sample"] = {"state": kind, "commands": cmds}


def _nested(res, viol):
    """nearest ancestor with cond_config.toml wins; outside any project -> MissingProjectRoot"""
    files = dict(FILES)
    files.update({"inner/cond_config.toml": "", "inner/COND": 'run_command(name="t", run="true")\n', "inner/sub/dir/f": "",
                  "inner/cond_config.toml/": None} if False else
                 {"inner/cond_config.toml": "", "inner/COND": 'run_command(name="t", run="true")\n', "inner/sub/dir/f": ""})
    root = driver.fresh_project(files, name="c17n")
    art = {"state": "nested"}
    for d, want_root in ((".", root), ("a/b", root), ("inner", os.path.join(root, "inner")), ("inner/sub/dir", os.path.join(root, "inner")),
                         ("nocond/deep", root)):
        res["evals"] += 1
        res["sigs"].add("nested:" + d)
        r = hist.run(root, ["where", "//:t", "-f"], cwd=d)
        if want_root == root:
            # //:t does not exist in the outer project
            r2 = hist.run(root, ["where", "//a:never", "-f"], cwd=d)
            if r2.exit != 0 or r2.out_text.strip() != os.path.join(root, "cond-out", "a", "never.task"):
                viol("root:wrong-root", "from %s/: where //a:never -f -> %r (exit %r)" % (d, r2.out_text.strip(), r2.exit), art)
        else:
            if r.exit != 0 or r.out_text.strip() != os.path.join(want_root, "cond-out", "t.task"):
                viol("root:not-nearest-ancestor", "from %s/: where //:t -f -> %r (exit %r), expected under %s" % (d, r.out_text.strip(), r.exit, want_root), art)
    # a directory named cond_config.toml is not a config file
    outside = os.path.join(os.path.dirname(root), "c17-outside")
    shutil.rmtree(outside, ignore_errors=True)
    os.makedirs(os.path.join(outside, "x"))
    for argv in (["where", "//:t"], ["run", "//:t"], ["gc"], ["archive"], ["clean", "-f"], ["restore", "/nonexistent.tar.gz"]):
        res["evals"] += 1
        res["sigs"].add("outside:" + argv[0])
        r = driver.run_cli(argv, os.path.join(outside, "x"), git=fakegit.NO_GIT)
        if r.exit == 0 or r.exc is not None or not r.err_text.startswith("ERROR:"):
            viol("root:outside-project:%s" % argv[0], "`cond %s` outside any project: exit %r exc %r stderr %r" % (argv[0], r.exit, r.exc, r.err_text[:200]), art)
    shutil.rmtree(outside, ignore_errors=True)
    res["sample"] = {"nested_project": "inner/ has its own cond_config.toml", "dirs": [".", "a/b", "inner", "inner/sub/dir", "nocond/deep"]}


def replay(artefact):
    r = run_item({k: v for k, v in artefact.items() if k in ("state", "cmd_index")}, "quick")
    return [(v["key"], v["what"]) for v in r["violations"]]
