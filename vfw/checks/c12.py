"""C12 - restore is all-or-nothing and never overwrites."""
import os
import shutil
import sqlite3
import subprocess
import sys

from .. import driver, explore, fakegit, hist, inject

ID = "C12"
LEVEL = "fault_enumeration"
RULE = ("archives with 1-3 versions (also: two versions of one task; 300 versions, intact only) x prior project states {empty, holding one of the archived versions (recorded), holding an "
        "unrecorded directory with a colliding name, holding unrelated recorded versions, holding a stale staging directory left by a "
        "killed restore of another archive} x every single corruption {none, index member removed, each version directory removed, "
        "stream truncated at every 512-byte block (every byte for the smallest archive in thorough), index replaced by garbage, index in "
        "format 1, empty tar, not a tar}; and every crash point of `cond restore` (process death between any two Python lines at which "
        "the on-disk state differs) for each archive x prior state, each surviving state checked after ordinary recovery and used as "
        "the start state of a second restore. oracle: unless the command reported success, committed rows and the digest of every "
        "version directory that existed before (recorded or a leftover) are unchanged; on success every archived row is committed with its directory. non-trivial = "
        "faulted restore (corrupted archive, conflicting prior state or crash); distinct = distinct (archive, prior, fault)"
        " Interrupts: ConductorAbort raised at every line of Conductor code during the restore (SIGINT/SIGTERM: the cleanup code runs), and a "
        "real SIGTERM / SIGINT sent while the external tar is half-way through a file; same oracle, and a restore interrupted during the "
        "extraction must not report success."
        ' A further prior state holds an index still in format 1 (the restoring process migrates it first).')
ASSUMPTIONS = [
    "crash = process death at Python-line granularity (all Python frames, so shutil.copytree steps are points); points inside one SQLite "
    "commit or inside the external tar are not cut: SQLite's atomic commit and the kernel's rename/mkdir atomicity are trusted",
    "unrecorded leftover directories after a failed restore are allowed (cond gc removes them)",
]
CHUNK = 1

COND = ('run_experiment(name="e1", run="./e1.sh")\nrun_experiment(name="e2", run="./e2.sh", deps=[":e1"])\n'
        'run_experiment(name="e3", run="./e3.sh", deps=[":e2"])\n')
BEH = {k: {"files": {"data/f.bin": "\x00\x01payload-%s" % k, "g.txt": "g"}, "stdout": "o"} for k in ("//:e1", "//:e2", "//:e3")}


def warmup():
    driver.mods()


def make_archive(nversions, t0=1_700_000_000, name="c12src", target=None):
    """-> (archive bytes, rows, {vdir: subtree digest})"""
    root = driver.fresh_project({"COND": COND}, name=name)
    if nversions == "2same":
        # two versions of ONE task plus one of its dependency
        hist.run(root, ["run", "//:e2"], clock=driver.Clock(t0 + 10), behaviours=BEH)
        hist.run(root, ["run", "//:e2", "--again"], clock=driver.Clock(t0 + 20), behaviours=BEH)
    elif nversions == "big":
        # 3 tasks x 100 versions, written directly (more rows than any batch size a loader is likely to use)
        rows, tree = [], {}
        for ti, tid in enumerate(("//:e1", "//:e2", "//:e3")):
            for k in range(100):
                ts = t0 + 1000 * ti + k
                rows.append((tid, ts, None, 0))
                tree[os.path.join("cond-out", vdir((tid, ts)), "v.txt")] = "%s %d\n" % (tid, ts)
        driver.write_tree(root, tree)
        driver.make_index(os.path.join(root, "cond-out", "version_index.sqlite"), rows)
    else:
        target = target or {1: "//:e1", 2: "//:e2", 3: "//:e3"}[nversions]
        hist.run(root, ["run", target], clock=driver.Clock(t0 + 10), behaviours=BEH)
    arch = os.path.join(root, "A.tar.gz")
    r = hist.run(root, ["archive", "-o", arch])
    assert r.exit == 0, r.err_text
    rows = hist.rows(root)
    t = hist.data_tree(root)
    dirs = {vdir(r_): hist.subtree(t, vdir(r_)) for r_ in rows}
    with open(arch, "rb") as f:
        data = f.read()
    return data, rows, dirs, root


def vdir(row):
    path, name = row[0][2:].split(":")
    return os.path.join(path, "%s.task.%d" % (name, row[1]))


def staging_name():
    """The name Conductor uses for its restore staging directory inside cond-out."""
    try:
        from conductor.config import ARCHIVE_STAGING
        return ARCHIVE_STAGING
    except ImportError:
        return "archive-tmp"


def repack(data, mutate, name="c12pack"):
    d = os.path.join(driver.scratch_root(), name)
    shutil.rmtree(d, ignore_errors=True)
    os.makedirs(d)
    src = os.path.join(d, "in.tar.gz")
    with open(src, "wb") as f:
        f.write(data)
    x = os.path.join(d, "x")
    os.makedirs(x)
    subprocess.run(["tar", "xzf", src, "-C", x], check=True)
    mutate(x)
    out = os.path.join(d, "out.tar.gz")
    members = sorted(os.listdir(x))
    subprocess.run(["tar", "czf", out, "-C", x] + members, check=True) if members else subprocess.run(["tar", "czf", out, "-T", "/dev/null"], check=True)
    with open(out, "rb") as f:
        res = f.read()
    shutil.rmtree(d, ignore_errors=True)
    return res


def corruptions(data, rows, tier, smallest):
    out = [("none", data)]
    out.append(("no-index", repack(data, lambda x: os.unlink(os.path.join(x, "version_index_archive.sqlite")))))
    for r in rows:
        out.append(("no-dir:%s" % vdir(r), repack(data, lambda x, r=r: shutil.rmtree(os.path.join(x, vdir(r))))))

    def garbage(x):
        with open(os.path.join(x, "version_index_archive.sqlite"), "wb") as f:
            f.write(b"this is not a database" * 40)

    def v1(x):
        p = os.path.join(x, "version_index_archive.sqlite")
        os.unlink(p)
        c = sqlite3.connect(p)
        c.execute("PRAGMA user_version = 1")
        c.execute("CREATE TABLE version_index (task_identifier TEXT NOT NULL, timestamp INTEGER NOT NULL, git_commit TEXT NOT NULL, PRIMARY KEY (task_identifier, timestamp))")
        c.executemany("INSERT INTO version_index VALUES (?,?,?)", [(r[0], r[1], "x") for r in rows])
        c.commit()
        c.close()

    def v3(x):
        p = os.path.join(x, "version_index_archive.sqlite")
        c = sqlite3.connect(p)
        c.execute("PRAGMA user_version = 3")
        c.commit()
        c.close()

    def extra_row(x):
        p = os.path.join(x, "version_index_archive.sqlite")
        c = sqlite3.connect(p)
        c.execute("INSERT INTO version_index VALUES ('//:ghost', 5, NULL, 0)")
        c.commit()
        c.close()

    def file_for_dir(x):
        d = os.path.join(x, vdir(rows[-1]))
        shutil.rmtree(d)
        with open(d, "w") as f:
            f.write("a file where a directory should be")

    out.append(("garbage-index", repack(data, garbage)))
    out.append(("v1-index", repack(data, v1)))
    out.append(("v3-index", repack(data, v3)))
    out.append(("row-without-dir", repack(data, extra_row)))
    out.append(("file-instead-of-dir", repack(data, file_for_dir)))
    out.append(("empty-tar", repack(data, lambda x: [shutil.rmtree(os.path.join(x, m)) if os.path.isdir(os.path.join(x, m)) else os.unlink(os.path.join(x, m)) for m in os.listdir(x)])))
    out.append(("not-a-tar", b"\x1f\x8b" + b"garbage" * 50))
    out.append(("zero-bytes", b""))
    cuts = list(range(512, len(data), 512)) + [len(data) - 1, len(data) - 8, 10, 1]
    if tier == "thorough" and smallest:
        cuts = list(range(1, len(data)))
    for n in sorted(set(c for c in cuts if 0 < c < len(data))):
        out.append(("truncate@%d" % n, data[:n]))
    return out


PRIORS = ["empty", "holds-recorded-same", "holds-unrecorded-dir", "holds-unrelated", "stale-staging", "stale-staging-other", "format1-index",
          "stale-staging-same", "package-named-archive-tmp"]
# corruptions after which the restore "cannot complete" by the statement (archive lacks its index or a listed directory / is no archive)
MUST_FAIL = ("no-index", "no-dir", "garbage-index", "empty-tar", "not-a-tar", "zero-bytes", "file-instead-of-dir", "row-without-dir", "v3-index")


def make_prior(prior, rows, other):
    """Build the destination project; other = (data, rows, dirs) of a different archive for stale staging."""
    root = driver.fresh_project({"COND": COND}, name="c12dst")
    co = os.path.join(root, "cond-out")
    os.makedirs(co, exist_ok=True)
    first = rows[0]
    if prior == "empty":
        driver.make_index(os.path.join(co, "version_index.sqlite"), [])
    elif prior == "holds-recorded-same":
        driver.make_index(os.path.join(co, "version_index.sqlite"), [tuple(first)])
        driver.write_tree(co, {vdir(first) + "/mine.txt": "precious local data\n"})
    elif prior == "holds-unrecorded-dir":
        driver.make_index(os.path.join(co, "version_index.sqlite"), [])
        driver.write_tree(co, {vdir(rows[-1]) + "/leftover.txt": "from a failed run\n"})
    elif prior == "holds-unrelated":
        driver.make_index(os.path.join(co, "version_index.sqlite"), [("//:e1", 999, None, 0), ("//:zz", first[1], "c" * 40, 1)])
        driver.write_tree(co, {"e1.task.999/keep.txt": "keep\n", "zz.task.%d/keep.txt" % first[1]: "keep2\n"})
    elif prior == "package-named-archive-tmp":
        # `archive-tmp` is a perfectly valid package name: //archive-tmp:zz has a recorded version (and so does a nested package)
        driver.make_index(os.path.join(co, "version_index.sqlite"), [("//archive-tmp:zz", 5, None, 0), ("//archive-tmp/sub:zz", 6, None, 0)])
        driver.write_tree(co, {"archive-tmp/zz.task.5/keep.txt": "results of //archive-tmp:zz\n", "archive-tmp/sub/zz.task.6/keep.txt": "nested\n"})
    elif prior == "format1-index":
        # a project last used with Conductor <= 0.4: the restoring process upgrades the index first
        c = sqlite3.connect(os.path.join(co, "version_index.sqlite"))
        c.execute("PRAGMA user_version = 1")
        c.execute("CREATE TABLE version_index (task_identifier TEXT NOT NULL, timestamp INTEGER NOT NULL, git_commit TEXT NOT NULL, PRIMARY KEY (task_identifier, timestamp))")
        c.executemany("INSERT INTO version_index VALUES (?,?,?)", [("//:e1", 999, "x"), (first[0], first[1] + 7, "y")])
        c.commit()
        c.close()
        driver.write_tree(co, {"e1.task.999/keep.txt": "keep\n", "%s/keep.txt" % vdir((first[0], first[1] + 7)): "keep3\n"})
    elif prior in ("stale-staging", "stale-staging-other", "stale-staging-same"):
        driver.make_index(os.path.join(co, "version_index.sqlite"), [("//:e1", 999, None, 0)])
        driver.write_tree(co, {"e1.task.999/keep.txt": "keep\n"})
        st = os.path.join(co, staging_name())
        os.makedirs(st)
        p = os.path.join(st, "in.tar.gz")
        with open(p, "wb") as f:
            # "same": what a SIGKILLed restore of the very archive that is restored next (intact copy) left in the staging area
            f.write(other[0] if prior != "stale-staging-same" else other[3])
        subprocess.run(["tar", "xzf", p, "-C", st], check=True)
        os.unlink(p)
        if prior == "stale-staging-other":
            # the killed restore had already removed nothing; leave only the index behind (dirs partly copied away)
            pass
    return root


VERSION_DIR = __import__("re").compile(r"^[A-Za-z0-9_-]+\.task\.\d+$")


def existing_versions(rows_before, tree_before):
    """Every version directory present before the restore - recorded or not (a leftover of a failed run is the "pre-existing
    directory" of the statement) - with its content."""
    out = {vdir(r): hist.subtree(tree_before, vdir(r)) for r in rows_before}
    for k, v in tree_before.items():
        if os.sep not in k and v == ("d",) and VERSION_DIR.match(k):
            out.setdefault(k, hist.subtree(tree_before, k))
    return out


def oracle(root, rows_before, recorded_before, arch_rows, arch_dirs, success, viol, art, tag):
    rows_after = hist.rows(root)
    tree = hist.data_tree(root)
    if rows_after is None:
        viol("%s:index-unreadable" % tag, "the version index cannot be read after the restore", art)
        return
    # previously recorded directories are never modified
    for d, sub in recorded_before.items():
        if hist.subtree(tree, d) != sub or tree.get(d) != ("d",):
            viol("%s:existing-version-modified" % tag, "version directory %s, which existed before the restore, was modified or removed by it" % d, art)
    if success:
        missing = [r for r in arch_rows if tuple(r) not in [tuple(x) for x in rows_after]]
        if missing:
            viol("%s:success-but-rows-missing" % tag, "restore reported success but rows %s are not recorded" % missing, art)
        for r in arch_rows:
            d = vdir(r)
            if hist.subtree(tree, d) != arch_dirs.get(d) or tree.get(d) != ("d",):
                viol("%s:success-but-dir-wrong" % tag, "restore reported success but %s is missing or differs from the archive" % d, art)
        extra = [r for r in rows_after if tuple(r) not in [tuple(x) for x in rows_before] and tuple(r) not in [tuple(x) for x in arch_rows]]
        if extra:
            viol("%s:success-foreign-rows" % tag, "restore recorded rows that are not in the archive: %s" % extra, art)
    else:
        if sorted(map(tuple, rows_after)) != sorted(map(tuple, rows_before)):
            viol("%s:failed-but-rows-changed" % tag, "restore did not report success but rows changed: before %s after %s"
                 % (sorted(map(tuple, rows_before)), sorted(map(tuple, rows_after))), art)
    # the index never outlives its data: every recorded row has its directory
    for r in rows_after:
        if tree.get(vdir(r)) != ("d",):
            viol("%s:row-without-directory" % tag, "row %s is recorded but %s does not exist" % (tuple(r), vdir(r)), art)


INTERRUPT_CHUNKS = 6


def items(tier):
    out = []
    for nv in (1, 2, 3):
        for prior in PRIORS:
            out.append({"kind": "corrupt", "nv": nv, "prior": prior})
            out.append({"kind": "crash", "nv": nv, "prior": prior})
    # the same from a sub-directory of the project (a reported failure must still leave nothing behind, a valid archive must restore)
    for nv in (1, 2):
        for prior in ("empty", "holds-unrelated", "holds-recorded-same"):
            out.append({"kind": "corrupt", "nv": nv, "prior": prior, "cwd": "src/deep"})
    # archives holding several versions of one task, and a large archive (300 versions)
    for prior in ("empty", "holds-unrelated", "holds-recorded-same", "holds-unrecorded-dir"):
        out.append({"kind": "corrupt", "nv": "2same", "prior": prior})
    out.append({"kind": "crash", "nv": "2same", "prior": "empty"})
    out.append({"kind": "corrupt", "nv": "big", "prior": "empty", "only_intact": True})
    # SIGINT/SIGTERM instead of SIGKILL: ConductorAbort raised at every line of Conductor code during the restore (the cleanup
    # code runs), and a real SIGTERM while the external tar is half-way through a file
    for nv in (1, 2):
        for prior in ("empty", "holds-unrelated", "holds-unrecorded-dir") + (("holds-recorded-same", "stale-staging-same") if tier == "thorough" else ()):
            for ch in range(INTERRUPT_CHUNKS):
                out.append({"kind": "interrupt", "nv": nv, "prior": prior, "chunk": ch})
        for prior in ("empty", "holds-unrelated"):
            out.append({"kind": "midtar", "nv": nv, "prior": prior})
    return out


def _fresh_dst(item, data, arows, other):
    root = make_prior(item["prior"], arows, other)
    rows_before = hist.rows(root)
    tree_before = hist.data_tree(root)
    recorded_before = existing_versions(rows_before, tree_before)
    arch = os.path.join(root, "R.tar.gz")
    with open(arch, "wb") as f:
        f.write(data)
    return root, arch, rows_before, recorded_before


def _interrupt(item, tier, data, arows, adirs, other, res, viol):
    from conductor.errors import ConductorAbort
    counts = []
    for _ in range(5):
        root, arch, _, _ = _fresh_dst(item, data, arows, other)
        counter = inject.AbortInjector(None)
        with _quiet():
            hist.run(root, ["restore", arch], tracer=counter)
        counts.append(counter.count)
        if len(counts) >= 2 and counts[-1] == counts[-2] and counts[-1] > 0:
            break
    N = counts[-1]
    if len(counts) < 2 or counts[-1] != counts[-2] or N == 0:
        raise RuntimeError("interrupt-point count of cond restore is not deterministic: %r" % (counts,))
    res["counters"]["interrupt_points:%d:%s" % (item["nv"], item["prior"])] = N if item["chunk"] == 0 else 0
    for k in range(item["chunk"] * N // INTERRUPT_CHUNKS, (item["chunk"] + 1) * N // INTERRUPT_CHUNKS):
        root, arch, rows_before, recorded_before = _fresh_dst(item, data, arows, other)
        inj = inject.AbortInjector(k, exc_factory=ConductorAbort)
        with _quiet():
            r = hist.run(root, ["restore", arch], tracer=inj)
        res["evals"] += 1
        if inj.fired_at is None or inj.skipped_finalizer:
            continue
        res["sigs"].add(explore.sig([item["nv"], item["prior"], "interrupt", inj.fired_at]))
        art = {"kind": "interrupt", "nv": item["nv"], "prior": item["prior"], "chunk": item["chunk"], "k": k, "at": list(inj.fired_at)}
        success = (r.exit == 0 and r.exc is None)
        if r.exc is not None:
            # (a traceback instead of the abort message - e.g. UnboundLocalError from the `finally` when the interrupt comes before
            # `staging_path` is bound - is not something this property speaks about: counted, not charged)
            res["counters"]["interrupts_ending_in_a_traceback"] = res["counters"].get("interrupts_ending_in_a_traceback", 0) + 1
        # all-or-nothing: an interrupt that lands after the commit leaves a completed restore (judged as one), any other nothing
        rows_after = hist.rows(root) or []
        before_set = {tuple(y) for y in (rows_before or [])}
        committed = bool(arows) and not any(tuple(x) in before_set for x in arows) and all(tuple(x) in [tuple(y) for y in rows_after] for x in arows)
        oracle(root, rows_before, recorded_before, arows, adirs, success or committed, viol, art, "interrupt")
    res["sample"] = {"prior": item["prior"], "archive_rows": arows, "interrupt_points": N}


TAR_SHIM = """#!/bin/bash
# tar as seen half-way through writing a member: everything is extracted, the last payload file is still short; the process
# announces that state, keeps "writing" for a while and then completes the file.
%(real)s "$@"
rc=$?
if [ "$1" = "xzf" ] && [ $rc -eq 0 ] && [ -n "$VFW_TAR_MARK" ] && [ ! -e "$VFW_TAR_MARK" ]; then
  f=$(find "$4" -type f -name 'f.bin' | sort | tail -1)
  if [ -n "$f" ]; then
    cp "$f" "$VFW_TAR_MARK.saved"
    head -c 3 "$VFW_TAR_MARK.saved" > "$f"
    touch "$VFW_TAR_MARK"
    sleep 1.5
    [ -d "$(dirname "$f")" ] && cat "$VFW_TAR_MARK.saved" > "$f" 2>/dev/null
  fi
fi
exit $rc
"""


def _midtar(item, tier, data, arows, adirs, other, res, viol):
    import signal
    import threading
    import time
    root, arch, rows_before, recorded_before = _fresh_dst(item, data, arows, other)
    shimdir = os.path.join(driver.scratch_root(), "c12shim")
    shutil.rmtree(shimdir, ignore_errors=True)
    os.makedirs(shimdir)
    real = shutil.which("tar")
    with open(os.path.join(shimdir, "tar"), "w") as f:
        f.write(TAR_SHIM % {"real": real})
    os.chmod(os.path.join(shimdir, "tar"), 0o755)
    mark = os.path.join(shimdir, "midway")
    for signame in ("SIGTERM", "SIGINT"):
        root, arch, rows_before, recorded_before = _fresh_dst(item, data, arows, other)
        for p in (mark, mark + ".saved"):
            if os.path.exists(p):
                os.unlink(p)
        done, sent, late = threading.Event(), [], []

        def sender():
            deadline = time.time() + 10
            while time.time() < deadline and not done.is_set():
                if os.path.exists(mark):
                    sent.append(1)
                    os.kill(os.getpid(), getattr(signal, signame))
                    return
                time.sleep(0.005)

        old = {s_: signal.getsignal(s_) for s_ in (signal.SIGTERM, signal.SIGINT)}
        for s_ in old:
            signal.signal(s_, lambda *a: late.append(1))     # should the signal arrive after Conductor has put the handlers back
        th = threading.Thread(target=sender, daemon=True)
        th.start()
        try:
            with _quiet():
                r = hist.run(root, ["restore", arch], env={"PATH": shimdir + os.pathsep + os.environ.get("PATH", ""), "VFW_TAR_MARK": mark})
        finally:
            done.set()
            th.join()
            for s_, h in old.items():
                signal.signal(s_, h)
        res["evals"] += 1
        art = {"kind": "midtar", "nv": item["nv"], "prior": item["prior"], "signal": signame}
        if not sent or late:
            res["counters"]["midtar_not_reached"] = res["counters"].get("midtar_not_reached", 0) + 1
            continue
        res["sigs"].add(explore.sig([item["nv"], item["prior"], "midtar", signame]))
        success = (r.exit == 0 and r.exc is None)
        oracle(root, rows_before, recorded_before, arows, adirs, success, viol, art, "midtar")
        if success:
            viol("midtar:reported-success", "%s arrived while tar was still extracting, yet cond restore reported success" % signame, art)
    res["sample"] = {"prior": item["prior"], "archive_rows": arows, "signal_while": "tar half-way through the last payload file"}


def run_item(item, tier):
    res = {"evals": 0, "sigs": set(), "violations": [], "counters": {}, "sample": None}
    found = {}

    def viol(key, what, art):
        found.setdefault(key, (what, art))

    data, arows, adirs, src = make_archive(item["nv"])
    other = make_archive(2, t0=1_600_000_000, name="c12other", target="//:e2") + (data,)
    other = (other[0], other[1], other[2], data)
    if item["kind"] == "corrupt":
        for cname, cdata in ([("none", data)] if item.get("only_intact") else corruptions(data, arows, tier, smallest=(item["nv"] == 1))):
            root = make_prior(item["prior"], arows, other)
            rows_before = hist.rows(root)
            tree_before = hist.data_tree(root)
            recorded_before = existing_versions(rows_before, tree_before)
            arch = os.path.join(root, "R.tar.gz")
            with open(arch, "wb") as f:
                f.write(cdata)
            res["evals"] += 1
            if item.get("cwd"):
                os.makedirs(os.path.join(root, item["cwd"]), exist_ok=True)
            with _quiet():
                r = hist.run(root, ["restore", arch], cwd=item.get("cwd") or ".")
            success = (r.exit == 0 and r.exc is None)
            art = {"kind": "corrupt", "nv": item["nv"], "prior": item["prior"], "corruption": cname, "cwd": item.get("cwd")}
            if cname != "none" or item["prior"] != "empty":
                res["sigs"].add(explore.sig([item["nv"], item["prior"], cname]))
            k = "restore_succeeded" if success else "restore_failed"
            res["counters"][k] = res["counters"].get(k, 0) + 1
            oracle(root, rows_before, recorded_before, arows, adirs, success, viol, art, "corrupt:" + cname.split("@")[0].split(":")[0])
            if success and cname.split("@")[0].split(":")[0] in MUST_FAIL:
                viol("corrupt:%s:restored-anyway" % cname.split(":")[0], "the archive is damaged (%s) but cond restore reported success (prior state %s)"
                     % (cname, item["prior"]), art)
            if cname == "none" and item["prior"] in ("empty", "holds-unrelated", "stale-staging", "stale-staging-other", "format1-index", "stale-staging-same", "package-named-archive-tmp") and not success:
                viol("valid-restore-failed", "restoring a valid archive into prior state %s failed: %r %s" % (item["prior"], r.exc, r.err_text[:200]), art)
        res["sample"] = {"archive_rows": arows, "prior": item["prior"], "corruptions": "index/dir removed, truncations, garbage/format-1 index, ..."}
    elif item["kind"] == "interrupt":
        _interrupt(item, tier, data, arows, adirs, other, res, viol)
    elif item["kind"] == "midtar":
        _midtar(item, tier, data, arows, adirs, other, res, viol)
    else:
        _crash(item, tier, data, arows, adirs, other, res, viol)
    for key, (what, art) in found.items():
        res["violations"].append({"key": key, "what": what, "artefact": art})
    return res


class _quiet:
    """tar writes its complaints straight to fd 2"""

    def __enter__(self):
        sys.stderr.flush()
        self.saved = os.dup(2)
        self.null = os.open(os.devnull, os.O_WRONLY)
        os.dup2(self.null, 2)

    def __exit__(self, *a):
        os.dup2(self.saved, 2)
        os.close(self.saved)
        os.close(self.null)


def _crash(item, tier, data, arows, adirs, other, res, viol):
    """Every crash point of `cond restore`: snapshot the project whenever the on-disk state changed."""
    root = make_prior(item["prior"], arows, other)
    rows_before = hist.rows(root)
    tree_before = hist.data_tree(root)
    recorded_before = existing_versions(rows_before, tree_before)
    arch = os.path.join(root, "R.tar.gz")
    with open(arch, "wb") as f:
        f.write(data)
    snapdir = os.path.join(driver.scratch_root(), "c12snaps")
    tracer = inject.CrashSnapshotter(root, snapdir)
    with _quiet():
        r = hist.run(root, ["restore", arch], tracer=tracer)
    snaps = tracer.snapshots
    res["counters"]["line_events"] = tracer.events
    art0 = {"kind": "crash", "nv": item["nv"], "prior": item["prior"]}
    for i, snap in enumerate(snaps):
        res["evals"] += 1
        art = dict(art0, snapshot=i, at=tracer.where[i])
        res["sigs"].add(explore.sig([item["nv"], item["prior"], "crash", i]))
        # (1) ordinary recovery on the surviving state: all or nothing.  A crash after the commit (before the staging
        # directory is cleaned up) is a completed restore: then *every* archived row must be there with its directory.
        rows_now = hist.rows(snap)
        committed = rows_now is not None and all(tuple(a) in [tuple(x) for x in rows_now] for a in arows) \
            and not all(tuple(a) in [tuple(x) for x in rows_before] for a in arows)
        oracle(snap, rows_before, recorded_before, arows, adirs, committed, viol, art, "crash")
        # (2) the surviving state as a non-initial start state: restore again
        work = os.path.join(driver.scratch_root(), "c12work")
        hist.restore_snapshot(snap, work)
        rows_b = hist.rows(work)
        tree_b = hist.data_tree(work)
        rec_b = {vdir(x): hist.subtree(tree_b, vdir(x)) for x in rows_b}
        with _quiet():
            r2 = hist.run(work, ["restore", os.path.join(work, "R.tar.gz")])
        ok2 = r2.exit == 0 and r2.exc is None
        oracle(work, rows_b, rec_b, arows, adirs, ok2, viol, dict(art, second="restore"), "crash+restore")
        if item["prior"] in ("empty", "holds-unrelated") and not ok2 and not committed:
            # leftovers of the killed restore must not make the archive unrestorable forever: allowed to fail once only
            # if gc can clean up: run gc then restore again
            with _quiet():
                hist.run(work, ["gc"])
                r3 = hist.run(work, ["restore", os.path.join(work, "R.tar.gz")])
            res["counters"]["needed_gc_before_retry"] = res["counters"].get("needed_gc_before_retry", 0) + 1
            if not (r3.exit == 0 and r3.exc is None):
                viol("crash+gc+restore:still-fails", "after a killed restore, `cond gc` and a second restore still fails: %r %s"
                     % (r3.exc, r3.err_text[:200]), dict(art, second="gc+restore"))
            else:
                oracle(work, rows_b, rec_b, arows, adirs, True, viol, dict(art, second="gc+restore"), "crash+gc+restore")
        shutil.rmtree(work, ignore_errors=True)
    shutil.rmtree(snapdir, ignore_errors=True)
    res["counters"]["crash_states"] = len(snaps)
    res["sample"] = {"prior": item["prior"], "archive_rows": arows, "distinct_on_disk_states_during_restore": len(snaps),
                     "first_points": tracer.where[:5]}


def replay(artefact):
    r = run_item({"kind": artefact["kind"], "nv": artefact["nv"], "prior": artefact["prior"], "chunk": artefact.get("chunk", 0),
                  "only_intact": artefact["nv"] == "big", "cwd": artefact.get("cwd")}, "quick")
    return [(v["key"], v["what"]) for v in r["violations"]]
