"""C06 - only successful runs become versions; the index never outlives its data."""
import itertools
import json
import os
import re
import shutil
import sys

from .. import driver, explore, fakegit, hist, inject, rungrid, vk as vkmod

ID = "C06"
LEVEL = "fault_enumeration"
RULE = ("(a) outcome part: all rooted DAG shapes n<=3 x listing orders over experiments/commands x every subset of failing tasks "
        "(exit code, signal, launch failure) x jobs x git state {none, clean HEAD, dirty HEAD} explored under the virtual kernel over "
        "all completion orders: rows added = exactly the experiments whose process exited 0, with the version of their COND_OUT, "
        "HEAD's hash and the dirty flag; (b) crash part: for command histories of length <=3 over {run ok (args/options empty and "
        "non-empty), run failing, run --again, archive, clean+restore, gc} every distinct on-disk state that exists between two "
        "executed Python lines of the last command is copied (= what survives kill -9 there) and checked after ordinary SQLite "
        "recovery: every committed row has its directory, the child's DONE marker and args.json/options.json decoding to the declared "
        "values; each surviving state is also the start state of one further command {run, gc, restore} whose result must satisfy "
        "the same invariant; (c) abort part: ConductorAbort (what a SIGINT/SIGTERM handler raises) injected at every executed line, every "
        "eval-breaker instruction and after every pure C call of `cond run` for 1-2 experiments (3 tasks --jobs 2 in the thorough tier): "
        "every committed row belongs to a process that exited 0 and still has its directory and finished output. non-trivial = case with at least one experiment / crash state; distinct = distinct (case, order) or "
        "(history, crash state)")
ASSUMPTIONS = [
    "crash = process death at Python-line granularity (Conductor, shutil, json frames); inside one SQLite commit / one C call is trusted",
    "the virtual child writes its DONE marker only when it exits 0: 'finished output' = DONE present",
]
CHUNK = 4
VERS = re.compile(r"\.task\.(\d+)$")
ARGS = ["x", 1, 1.5, True]
OPTS = {"k": "v w", "n": 2, "b": False}


def warmup():
    rungrid.explore_case({"g": [[]], "kinds": ["exp"], "jobs": 1}, 0, [])


# ------------------------------------------------------------------------------------------- (a) outcomes
def mon_rows(s, obs):
    v = []
    case = s.case
    if s.exc is not None:
        v.append(("rows:internal-error", "cond run ended with %s: %s" % (type(s.exc).__name__, s.exc)))
        return v
    want = []
    git = obs.scn.get("git")
    commit = git["head"] if git else None
    dirty = 1 if (git and git.get("dirty")) else 0
    status = {}
    for seq, node, st, pid, why in s.exits:
        status[node] = st
    for seq, node, info, pid in s.spawns:
        if s.kinds[node] != "exp":
            continue
        m = VERS.search(info["out"] or "")
        if status.get(node) == 0 and m:
            want.append((s.ids[node], int(m.group(1)), commit, dirty))
    got = [tuple(r) for r in (obs.rows or [])]
    if sorted(got) != sorted(want):
        extra = sorted(set(got) - set(want))
        missing = sorted(set(want) - set(got))
        if extra:
            bad = [e for e in extra if not any(e[0] == w[0] and e[1] == w[1] for w in want)]
            key = "rows:unsuccessful-recorded" if bad else "rows:wrong-commit-or-dirty"
            v.append((key, "index rows %s, expected %s (extra %s)" % (sorted(got), sorted(want), extra)))
        if missing and not extra:
            v.append(("rows:successful-not-recorded", "index rows %s, expected %s (missing %s)" % (sorted(got), sorted(want), missing)))
    return v


def outcome_items(tier):
    out = []
    for g in rungrid.graphs_upto((1, 2, 3)):
        n = len(g)
        for kinds in (["exp"] * n, (["cmd", "exp"] * n)[:n], (["exp", "cmd"] * n)[:n], (["combine"] + ["exp"] * n)[:n]):
            nodes = [i for i in range(n) if kinds[i] in ("cmd", "exp")]
            for r in range(0, len(nodes) + 1):
                for subset in itertools.combinations(nodes, r):
                    for shift in range(3 if r == 1 else 1):
                        kindsf = [["exit", 3], ["signal", 15], ["launch"]]
                        fails = {str(i): kindsf[(j + shift) % 3] for j, i in enumerate(subset)}
                        for jobs in ((1,) if n < 3 else (1, 2)):
                            for gitstate in ("none", "clean", "dirty"):
                                case = {"g": g, "kinds": kinds, "pars": [k != "combine" and jobs > 1 for k in kinds], "jobs": jobs,
                                        "fails": fails, "git": gitstate != "none", "dirty": gitstate == "dirty"}
                                out.append({"kind": "outcome", "case": case})
    # several experiments in flight, mixed outcomes, exits reaped in one batch (deviation 1)
    for g in ([[1, 2], [], []], [[1, 2, 3], [], [], []]):
        n = len(g)
        for r in range(1, n - 1 + 1):
            for subset in itertools.combinations(range(1, n), r):
                if len(subset) == n - 1:
                    continue
                for fk in (["exit", 3], ["signal", 9]):
                    case = {"g": g, "kinds": ["group"] + ["exp"] * (n - 1), "pars": [False] + [True] * (n - 1), "jobs": n - 1,
                            "fails": {str(i): fk for i in subset}, "git": True, "dirty": False}
                    out.append({"kind": "outcome", "case": case, "bound": 1})
    # a child of the cond process that is not a task exits (status 0 / 5) while experiments are in flight: its status must not
    # be attributed to a task (neither direction: a failed execution recorded, a successful one not recorded)
    for g in rungrid.graphs_upto((1, 2)):
        n = len(g)
        for un in (True, 5 << 8):
            for fails in [{}] + [{str(i): ["exit", 3]} for i in range(n)]:
                for jobs in (1, 2):
                    case = {"g": g, "kinds": ["exp"] * n, "pars": [jobs > 1] * n, "jobs": jobs, "fails": fails, "git": False, "unrelated": un}
                    out.append({"kind": "outcome", "case": case, "bound": 1})
    # an unrecorded leftover directory carrying exactly the id the clock hands out next (a run that failed a moment ago)
    for g in rungrid.graphs_upto((1, 2)):
        n = len(g)
        for lo in range(n):
            case = {"g": g, "kinds": ["exp"] * n, "pars": [False] * n, "jobs": 1, "fails": {}, "git": False, "leftover_at_clock": [lo]}
            out.append({"kind": "outcome", "case": case})
    return out


# ------------------------------------------------------------------------------------------- (b) crash states
COND = ('run_experiment(name="e1", run="./e1.sh", args=%s, options=%s)\n'
        'run_experiment(name="e2", run="./e2.sh", deps=[":e1"])\n'
        'run_command(name="c", run="./c.sh", deps=[":e2"])\n' % (json.dumps(ARGS).replace("true", "True"), repr(OPTS)))
DECL = {"//:e1": (ARGS, OPTS), "//:e2": ([], {})}
STEPS = ["run-ok", "run-fail", "run-again", "archive", "restore", "gc"]
TRACE_FILES = (driver.REPO_SRC + "/conductor", "shutil.py", "/json/", "tempfile.py")


def do_step(root, step, t, tracer=None):
    ck = driver.Clock(t)
    if step == "run-ok":
        return hist.run(root, ["run", "//:c"], clock=ck, tracer=tracer)
    if step == "run-again":
        return hist.run(root, ["run", "//:c", "--again"], clock=ck, tracer=tracer)
    if step == "run-fail":
        return hist.run(root, ["run", "//:c", "--again"], clock=ck, behaviours={"//:e2": {"status": 256}}, tracer=tracer)
    if step == "archive":
        arch = os.path.join(root, "A.tar.gz")
        if os.path.exists(arch):
            os.unlink(arch)
        return hist.run(root, ["archive", "-o", arch], clock=ck, tracer=tracer)
    if step == "restore":
        arch = os.path.join(root, "A.tar.gz")
        if not os.path.exists(arch):
            return None
        hist.run(root, ["clean", "--force"])
        return hist.run(root, ["restore", arch], clock=ck, tracer=tracer)
    if step == "gc":
        return hist.run(root, ["gc"], clock=ck, tracer=tracer)


def invariant(root, viol, art, tag):
    rows = hist.rows(root)
    if rows is None:
        return
    co = os.path.join(root, "cond-out")
    for r in rows:
        ident, ts = r[0], r[1]
        d = os.path.join(co, "%s.task.%d" % (ident.split(":")[1], ts))
        if not os.path.isdir(d):
            viol("%s:row-without-directory" % tag, "row %s is committed but %s does not exist" % ((ident, ts), os.path.basename(d)), art)
            continue
        if not os.path.exists(os.path.join(d, "DONE")):
            viol("%s:row-without-finished-output" % tag, "row %s is committed but the task's output is not finished (no DONE marker)" % ((ident, ts),), art)
        args, opts = DECL.get(ident, ([], {}))
        for fname, want in (("args.json", args), ("options.json", opts)):
            p = os.path.join(d, fname)
            if want:
                try:
                    with open(p) as f:
                        got = json.load(f)
                except (OSError, ValueError) as ex:
                    viol("%s:row-without-%s" % (tag, fname), "row %s is committed but %s is missing or incomplete (%s)" % ((ident, ts), fname, type(ex).__name__), art)
                    continue
                if got != want:
                    viol("%s:%s-wrong" % (tag, fname), "%s of %s decodes to %r, declared %r" % (fname, (ident, ts), got, want), art)


class RunSnapshotter(inject.CrashSnapshotter):
    def _global(self, frame, event, arg):
        fn = frame.f_code.co_filename
        if fn.startswith("/verif/"):
            return None
        if any(t in fn for t in TRACE_FILES):
            return self._local
        return None


def crash_items(tier):
    out = []
    depth = 2 if tier == "quick" else 3
    for d in range(1, depth + 1):
        for h in itertools.product(STEPS, repeat=d):
            if "restore" in h and "archive" not in h[:h.index("restore")]:
                continue
            if h[0] in ("gc", "archive", "run-again"):
                continue
            out.append({"kind": "crash", "history": list(h)})
    if tier == "thorough":
        for h3 in itertools.product(["run-ok", "run-fail", "archive"], repeat=3):
            for last in ("restore", "run-again", "gc"):
                if last == "restore" and "archive" not in h3:
                    continue
                if h3[0] == "archive":
                    continue
                out.append({"kind": "crash", "history": list(h3) + [last]})
    if tier == "quick":
        for h in (["run-ok", "archive", "restore"], ["run-ok", "run-fail", "gc"], ["run-ok", "run-again", "archive"], ["run-fail", "run-ok", "run-again"]):
            out.append({"kind": "crash", "history": h})
    return out


ABORT_CASES = [
    {"g": [[]], "kinds": ["exp"], "pars": [False], "jobs": 1},
    {"g": [[1], []], "kinds": ["exp", "exp"], "pars": [False, False], "jobs": 1},
    {"g": [[1, 2], [], []], "kinds": ["group", "exp", "exp"], "pars": [False, True, True], "jobs": 2},
]
ABORT_GRAN = {"line": 8, "evalbreaker": 2, "aftercall": 1}


def abort_items(tier):
    """(c) SIGINT/SIGTERM instead of SIGKILL: ConductorAbort raised at every executed line, at every instruction where CPython runs
    signal handlers, and right after every C call (e.g. after sqlite's commit has returned) of a `cond run`; Conductor's own
    cleanup code then runs.  Afterwards every committed row must still have its directory with the finished output."""
    out = []
    for ci, case in enumerate(ABORT_CASES if tier == "thorough" else ABORT_CASES[:2]):
        for gran, n in ABORT_GRAN.items():
            for ch in range(n):
                out.append({"kind": "abort", "case": case, "case_index": ci, "granularity": gran, "chunk": ch, "nchunks": n})
    return out


def run_abort(item, res, viol, only_target=None):
    from conductor.errors import ConductorAbort
    scn = rungrid.make_scenario(item["case"])
    gran = item["granularity"]
    counts = []
    for _ in range(5):
        counter = inject.AbortInjector(None, granularity=gran)
        explore.execute(scn, (), tracer=counter)
        counts.append(counter.count)
        if len(counts) >= 2 and counts[-1] == counts[-2] and counts[-1] > 0:
            break
    N = counts[-1]
    if only_target is None and (len(counts) < 2 or counts[-1] != counts[-2] or N == 0):
        raise RuntimeError("injection-point count not deterministic: %r" % (counts,))
    lo, hi = item["chunk"] * N // item["nchunks"], (item["chunk"] + 1) * N // item["nchunks"]
    if item["chunk"] == 0:
        res["counters"]["abort_points:%d:%s" % (item["case_index"], gran)] = N
    for k in ([None] if only_target is not None else range(lo, hi)):
        inj = inject.AbortInjector(k, exc_factory=ConductorAbort, target=only_target, granularity=gran)
        obs = explore.execute(scn, (), tracer=inj, allow_unconsumed=True, timeout=3)
        res["evals"] += 1
        if inj.fired_at is None:
            if only_target is not None:
                return
            raise RuntimeError("injection point %d of %d never reached" % (k, N))
        if inj.skipped_finalizer:
            continue
        where = "%s:%s:%d" % (inj.fired_at[1], inj.fired_at[0], inj.fired_at[2]) + (" [%s]" % (inj.fired_at[3],) if len(inj.fired_at) > 3 else "")
        art = {"kind": "abort", "case": item["case"], "case_index": item["case_index"], "granularity": gran, "target": list(inj.fired_key) + [inj.nth]}
        ok0 = {p.key for p in obs.vk.procs.values() if p.state != "run" and p.status == 0}
        res["sigs"].add(explore.sig([item["case_index"], gran, inj.fired_at, len(obs.rows or [])]))
        for row in obs.rows or []:
            path, name = row[0][2:].split(":")
            d = os.path.join(obs.root, "cond-out", path, "%s.task.%d" % (name, row[1]))
            if row[0] not in ok0:
                viol("abort:unsuccessful-recorded", "abort at %s: version recorded for %s whose process had not exited 0" % (where, row[0]), art)
            elif not os.path.isdir(d):
                viol("abort:row-without-directory", "abort at %s: %s version %d is recorded but its directory is gone" % (where, row[0], row[1]), art)
            elif not os.path.exists(os.path.join(d, "DONE")):
                viol("abort:row-without-output", "abort at %s: %s version %d is recorded but its finished output is missing" % (where, row[0], row[1]), art)
    res["sample"] = {"argv": scn["argv"], "granularity": gran, "injection_points": N, "chunk": [lo, hi]}


def items(tier):
    return outcome_items(tier) + crash_items(tier) + abort_items(tier)


class _quiet:
    def __enter__(self):
        sys.stderr.flush()
        self.saved = os.dup(2)
        self.null = os.open(os.devnull, os.O_WRONLY)
        os.dup2(self.null, 2)

    def __exit__(self, *a):
        os.dup2(self.saved, 2)
        os.close(self.saved)
        os.close(self.null)


def run_item(item, tier):
    if item["kind"] == "outcome":
        return rungrid.explore_case(item["case"], item.get("bound", 0), [mon_rows], max_exec=20000)
    res = {"evals": 0, "sigs": set(), "violations": [], "counters": {}, "sample": None}
    found = {}

    def viol(key, what, art):
        found.setdefault(key, (what, art))

    if item["kind"] == "abort":
        run_abort(item, res, viol, only_target=item.get("only_target"))
        for key, (what, art) in found.items():
            res["violations"].append({"key": key, "what": what, "artefact": art})
        return res
    root = driver.fresh_project({"COND": COND}, name="c06")
    t = 1_700_000_000
    hist_ = item["history"]
    with _quiet():
        for step in hist_[:-1]:
            t += 10
            do_step(root, step, t)
        invariant(root, viol, {"history": hist_, "at": "before last command"}, "state")
        t += 10
        snapdir = os.path.join(driver.scratch_root(), "c06snaps")
        tracer = RunSnapshotter(root, snapdir)
        r = do_step(root, hist_[-1], t, tracer=tracer)
        if r is None:
            return res
        res["counters"]["line_events"] = tracer.events
        res["counters"]["crash_states"] = len(tracer.snapshots)
        if tracer.capped:
            res.setdefault("caps", []).append("more than %d distinct on-disk states in one command" % tracer.max_snaps)
        invariant(root, viol, {"history": hist_, "at": "after last command"}, "state")
        for i, snap in enumerate(tracer.snapshots):
            res["evals"] += 1
            art = {"history": hist_, "snapshot": i, "at": tracer.where[i]}
            res["sigs"].add(explore.sig([hist_, i]))
            invariant(snap, viol, art, "crash")
            # the surviving state as start state of one further command
            for nxt in ("run-ok", "gc", "restore"):
                if nxt == "restore" and not os.path.exists(os.path.join(snap, "A.tar.gz")):
                    continue
                work = os.path.join(driver.scratch_root(), "c06work")
                hist.restore_snapshot(snap, work)
                if nxt == "restore":
                    r2 = hist.run(work, ["restore", os.path.join(work, "A.tar.gz")], clock=driver.Clock(t + 50))
                else:
                    r2 = do_step(work, nxt, t + 50)
                res["evals"] += 1
                invariant(work, viol, dict(art, then=nxt), "crash+%s" % nxt)
                shutil.rmtree(work, ignore_errors=True)
        shutil.rmtree(snapdir, ignore_errors=True)
    res["sample"] = {"history": hist_, "distinct_on_disk_states_in_last_command": len(tracer.snapshots), "points": tracer.where[:6]}
    for key, (what, art) in found.items():
        res["violations"].append({"key": key, "what": what, "artefact": dict(art, kind="crash")})
    return res


def replay(artefact):
    if "scenario" in artefact:
        return rungrid.replay_case(artefact, [mon_rows])
    if artefact.get("kind") == "abort":
        r = run_item({"kind": "abort", "case": artefact["case"], "case_index": artefact["case_index"], "granularity": artefact["granularity"],
                      "chunk": 0, "nchunks": 1, "only_target": artefact["target"]}, "quick")
        return [(v["key"], v["what"]) for v in r["violations"]]
    r = run_item({"kind": "crash", "history": artefact["history"]}, "quick")
    return [(v["key"], v["what"]) for v in r["violations"]]
