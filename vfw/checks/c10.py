"""C10 - recorded stdout/stderr and argument records are exact."""
import itertools
import json
import os
import subprocess

from .. import driver, explore, fakegit, hist, vk as vkmod

ID = "C10"
LEVEL = "exploration"
RULE = ("(a) the real TeeProcessor driven by a scripted pipe: every byte string of length <=5 (6 thorough) over {a, \\n, \\xff, \\x00} x "
        "every composition of it into read1() returns (all short-read patterns) x EOF, plus strings of 4095/4096/4097/8192/65537 bytes "
        "in every 2-piece split around the 4096 boundary; (b) both record modes under the virtual kernel: the child writes <=2 chunks "
        "per stream (empty, text, non-UTF-8, 70000 bytes > pipe buffer) in every interleaving of the two streams, sequential (real "
        "pipes + tee threads) and in a parallel slot (log file descriptors); (c) args lists <=2 and options dicts <=2 over the "
        "primitive alphabet {'a','a b','','\\u00fc',0,-1,1.5,True,False} x success/failure: args.json/options.json decode to the "
        "declared values and exist exactly when non-empty (successful runs); (d) real-process conformance: a real `cond run` whose task "
        "is a real process writing 0..1 MiB to both streams; (e) executions interrupted by SIGINT/SIGTERM to cond: the logs hold what the "
        "command had written when cond exits (an os._exit() in the code under test is modelled: the on-disk state at that instant counts). non-trivial = non-empty stream or record; distinct = distinct input"
        ' Parallelizable experiments are also executed sequentially (default and --jobs 1), where forwarding is required.')
ASSUMPTIONS = [
    "'any length' is exhaustive only up to the listed sizes; beyond that the copy loop is size-oblivious",
    "presence of args.json/options.json is only required for successful executions",
]
CHUNK = 8
ALPHA = [b"a", b"\n", b"\xff", b"\x00"]
PRIMS = ["a", "a b", "", "ü", 0, -1, 1.5, True, False, 1e-15, 0.1 + 0.2, "caf\udce9", float("inf")]   # the last one: a str as os.listdir() returns it for a non-UTF-8 file name


def warmup():
    driver.mods()
    from .. import rungrid
    rungrid.explore_case({"g": [[]], "kinds": ["exp"], "jobs": 1}, 0, [])


from ..threads import ScriptedPipe as _SP


def vkmod_current():
    from .. import vk as vkmod
    return vkmod.CURRENT["vk"]


def ScriptedPipe(chunks):
    return _SP(chunks, "s")


def compositions(data):
    n = len(data)
    if n == 0:
        yield []
        return
    for mask in range(1 << (n - 1)):
        parts, start = [], 0
        for i in range(n - 1):
            if mask >> i & 1:
                parts.append(data[start:i + 1])
                start = i + 1
        parts.append(data[start:])
        yield parts


def items(tier):
    out = []
    L = 5 if tier == "quick" else 6
    for n in range(0, L + 1):
        strings = [b"".join(t) for t in itertools.product(ALPHA, repeat=n)]
        for i in range(0, len(strings), 64):
            out.append({"kind": "tee", "strings": [s.decode("latin-1") for s in strings[i:i + 64]]})
    out.append({"kind": "tee-large"})
    chunks = ["", "text\n", "\xff\x00bin", "BIG"]
    streams = [[a, b] for a in chunks for b in chunks if not (a == "" and b != "")]
    for so in streams:
        for se in streams:
            out.append({"kind": "modes", "out": so, "err": se})
    arglists = [[]] + [[x] for x in PRIMS] + [[x, y] for x in PRIMS for y in PRIMS]
    optdicts = [{}] + [{"k": x} for x in PRIMS] + [{"k": x, "j": y} for x in PRIMS for y in PRIMS]
    combos = [(a, o) for a in arglists for o in optdicts if len(a) + len(o) <= 2 or (tier == "thorough" and len(a) + len(o) <= 3)]
    for i in range(0, len(combos), 12):
        out.append({"kind": "records", "combos": combos[i:i + 12]})
    # several experiments in ONE invocation whose arguments / options compare equal but differ in type (0 == False == 0.0):
    # each record must decode to what ITS task declared, for every listing order and under --jobs 1 and 3
    for perm in itertools.permutations(range(3)):
        for jobs in (1, 3):
            out.append({"kind": "records-multi", "perm": list(perm), "jobs": jobs})
    for size in (0, 1, 4096, 65536, 65537, 200_000, 1_048_576):
        out.append({"kind": "real", "size": size})
    # an execution that is interrupted (SIGINT / SIGTERM to cond while the task runs) is an execution too: whatever the command
    # had written when cond exits is in its logs
    for so in ("hello-out\n", "BIG", ""):
        for se in ("hello-err\n", ""):
            out.append({"kind": "interrupted", "out": so, "err": se})
    # the two tee jobs of one TeeProcessor under a controlled scheduler: all interleavings with <= 2 (3) preemptions
    for oc in (["AAAA"], ["AAAA", "BB"], ["A" * 5000]):
        for ec in (["xxxx"], ["xxxx", "yy"], ["x" * 5000]):
            out.append({"kind": "tee-threads", "out": oc, "err": ec, "bound": 2 if tier == "quick" else 3})
    return out


def tee_once(chunks, tmp):
    from conductor.utils.tee import TeeProcessor
    tp = TeeProcessor()
    pipe = ScriptedPipe(chunks)
    stream = driver.LogStream("stdout")
    path = os.path.join(tmp, "log")
    if os.path.exists(path):
        os.unlink(path)
    fut = tp.tee_pipe(pipe, stream, __import__("pathlib").Path(path))
    fut.result(timeout=30)
    tp.shutdown()
    with open(path, "rb") as f:
        logged = f.read()
    return logged, b"".join(stream.bparts)


def run_item(item, tier):
    res = {"evals": 0, "sigs": set(), "violations": [], "counters": {}, "sample": None}
    found = {}

    def viol(key, what, art):
        found.setdefault(key, (what, art))

    tmp = os.path.join(driver.scratch_root(), "c10")
    os.makedirs(tmp, exist_ok=True)
    if item["kind"] == "tee":
        for s in item["strings"]:
            data = s.encode("latin-1")
            for parts in compositions(data):
                res["evals"] += 1
                logged, fwd = tee_once(parts, tmp)
                if logged != data or fwd != data:
                    viol("tee:%s" % ("log" if logged != data else "forward"),
                         "stream %r delivered as read1 returns %r: log file %r, forwarded %r" % (data, parts, logged, fwd),
                         {"kind": "tee", "strings": [s]})
            if data:
                res["sigs"].add(s)
        res["sample"] = {"stream": repr(item["strings"][-1].encode("latin-1")), "read1_splits": "all %d compositions" % (1 << max(0, len(item["strings"][-1]) - 1))}
    elif item["kind"] == "tee-large":
        for size in (4095, 4096, 4097, 8192, 65537):
            data = bytes((i * 7 + 3) % 256 for i in range(size))
            cuts = sorted({c for c in (1, 4095, 4096, 4097, size - 1, size // 2) if 0 < c < size})
            for c in cuts + [None]:
                parts = [data] if c is None else [data[:c], data[c:]]
                res["evals"] += 1
                logged, fwd = tee_once(parts, tmp)
                res["sigs"].add("large:%d:%s" % (size, c))
                if logged != data or fwd != data:
                    viol("tee:large", "stream of %d bytes split at %s: log has %d bytes, forwarded %d bytes (first difference at %s)"
                         % (size, c, len(logged), len(fwd), next((i for i in range(min(len(logged), size)) if logged[i] != data[i]), min(len(logged), size))),
                         {"kind": "tee-large"})
        res["sample"] = {"sizes": [4095, 4096, 4097, 8192, 65537], "splits": "around the 4096-byte read size"}
    elif item["kind"] == "modes":
        big = bytes((i * 13 + 5) % 256 for i in range(70000)).decode("latin-1")
        so = [big if c == "BIG" else c for c in item["out"]]
        se = [big if c == "BIG" else c for c in item["err"]]
        seq = [("o", c) for c in so]
        # all interleavings of the stdout chunk sequence with the stderr chunk sequence
        positions = list(itertools.combinations(range(len(so) + len(se)), len(so)))
        for pos in positions:
            writes, oi, ei = [], 0, 0
            for k in range(len(so) + len(se)):
                if k in pos:
                    writes.append(["o", so[oi]])
                    oi += 1
                else:
                    writes.append(["e", se[ei]])
                    ei += 1
            want_o = "".join(so).encode("latin-1")
            want_e = "".join(se).encode("latin-1")
            for mode in ("sequential", "slot", "sequential-parallelizable", "sequential-j1"):
                res["evals"] += 1
                cond = 'run_experiment(name="e", run="./e.sh", parallelizable=%s)\n' % (mode != "sequential")
                scn = {"files": {"COND": cond}, "argv": ["run", "//:e"] + (["-j", "2"] if mode == "slot" else (["-j", "1"] if mode == "sequential-j1" else [])),
                       "behaviours": {"//:e": {"writes": writes}}}
                o = explore.execute(scn, name="c10m")
                art = {"kind": "modes", "out": item["out"], "err": item["err"]}
                if o.res.exit != 0 or o.res.exc is not None:
                    viol("modes:run-failed", "cond run exits %r %r" % (o.res.exit, o.res.exc), art)
                    continue
                outdir = [e for e in o.vk.log if e[0] == "spawn"][0][3]["out"]
                slot = [e for e in o.vk.log if e[0] == "spawn"][0][3]["slot"]
                if (slot is not None) != (mode == "slot"):
                    viol("modes:wrong-mode", "expected %s mode but COND_SLOT=%r" % (mode, slot), art)
                logs = {}
                for fname in ("stdout.log", "stderr.log"):
                    try:
                        with open(os.path.join(outdir, fname), "rb") as f:
                            logs[fname] = f.read()
                    except OSError as ex:
                        viol("modes:%s:log-missing" % mode, "%s mode: %s of the execution cannot be read (%s)" % (mode, fname, type(ex).__name__), art)
                if len(logs) != 2:
                    continue
                lo, le = logs["stdout.log"], logs["stderr.log"]
                if lo != want_o or le != want_e:
                    viol("modes:%s:log" % mode, "%s mode: stdout.log has %d bytes (expected %d), stderr.log %d (expected %d); chunks %r / %r"
                         % (mode, len(lo), len(want_o), len(le), len(want_e), [c[:8] for c in so], [c[:8] for c in se]), art)
                if mode != "slot" and (o.res.fwd_out != want_o or o.res.fwd_err != want_e):
                    viol("modes:%s:forward" % mode, "sequential mode: forwarded %d/%d bytes to cond's stdout/stderr, expected %d/%d"
                         % (len(o.res.fwd_out), len(o.res.fwd_err), len(want_o), len(want_e)), art)
                if want_o or want_e:
                    res["sigs"].add(explore.sig([item["out"], item["err"], pos, mode]))
        res["sample"] = {"stdout_chunks": [c[:10] for c in item["out"]], "stderr_chunks": [c[:10] for c in item["err"]], "interleavings": len(positions),
                         "modes": ["sequential (tee)", "parallel slot (log fd)"]}
    elif item["kind"] == "interrupted":
        big = bytes((i * 13 + 5) % 256 for i in range(70000)).decode("latin-1")
        so = big if item["out"] == "BIG" else item["out"]
        se = item["err"]
        for mode in ("sequential", "slot"):
            for signame in ("SIGINT", "SIGTERM"):
                res["evals"] += 1
                cond = 'run_experiment(name="e", run="./e.sh", parallelizable=%s)\n' % (mode == "slot")
                scn = {"files": {"COND": cond}, "argv": ["run", "//:e"] + (["-j", "2"] if mode == "slot" else []),
                       # (the task leaves a background process that holds stdout open until Conductor waits for the output: the
                       # copying threads cannot be done before Conductor decides how to exit - no race in the observation)
                       "behaviours": {"//:e": {"stdout": so, "stderr": se, "linger": "", "sigint_while_running": True, "abort_signal": signame}}}
                import concurrent.futures as cf
                real_result = cf.Future.result

                def result(self_, timeout=None):
                    vk_ = vkmod_current()
                    if vk_ is not None:
                        vk_.release_lingering()
                    return real_result(self_, timeout)

                cf.Future.result = result
                try:
                    o = explore.execute(scn, name="c10i", timeout=20)
                finally:
                    cf.Future.result = real_result
                art = {"kind": "interrupted", "out": item["out"], "err": item["err"]}
                sp = [e for e in o.vk.log if e[0] == "spawn"]
                if not sp:
                    viol("interrupted:not-run", "the experiment was not started", art)
                    continue
                outdir = sp[0][3]["out"]
                res["sigs"].add(explore.sig(["interrupted", item["out"], item["err"], mode, signame]))
                for fname, want in (("stdout.log", so.encode("latin-1")), ("stderr.log", se.encode("latin-1"))):
                    if o.res.hard_exit is not None and fname == "stderr.log":
                        continue    # stderr was closed by the dying task: whether its thread finished first is a race
                    if o.res.hard_exit is not None:
                        # the process ended with os._exit(): what counts is what was on disk at that instant
                        got = o.res.hard_exit[1].get(os.path.relpath(os.path.join(outdir, fname), os.path.join(o.root, "cond-out")))
                    else:
                        try:
                            with open(os.path.join(outdir, fname), "rb") as f:
                                got = f.read()
                        except OSError:
                            got = None
                    if got != want:
                        viol("interrupted:%s:log" % mode, "%s to cond while the task runs (%s mode): %s holds %s bytes, the command had written %d"
                             % (signame, mode, fname, "no" if got is None else len(got), len(want)), art)
        res["sample"] = {"stdout": item["out"][:10], "stderr": item["err"][:10], "interrupted_by": ["SIGINT", "SIGTERM"], "modes": ["sequential", "slot"]}
    elif item["kind"] == "records":
        from .. import graphs
        for a, o_ in item["combos"]:
            for fail in (False, True):
                res["evals"] += 1
                cond = graphs.render_task("e", "exp", [], args=a or None, options=o_ or None)
                scn = {"files": {"COND": cond}, "argv": ["run", "//:e"], "behaviours": {"//:e": {"status": 256 if fail else 0}}}
                o = explore.execute(scn, name="c10r")
                art = {"kind": "records", "combos": [[a, o_]]}
                sp = [e for e in o.vk.log if e[0] == "spawn"]
                if not sp:
                    viol("records:not-run", "experiment with args %r options %r was not spawned: %s" % (a, o_, o.res.err_text[:200]), art)
                    continue
                outdir = sp[0][3]["out"]
                if a or o_:
                    res["sigs"].add(explore.sig([a, o_, fail]))
                if fail:
                    continue
                for fname, want in (("args.json", a), ("options.json", o_)):
                    p = os.path.join(outdir, fname)
                    if want:
                        try:
                            with open(p, encoding="utf-8") as f:
                                got = json.load(f)
                        except (OSError, ValueError) as ex:
                            viol("records:%s-missing" % fname, "%s missing/unreadable for %r: %s" % (fname, want, ex), art)
                            continue
                        same = got == want and [type(x) for x in (got if isinstance(got, list) else got.values())] == \
                            [type(x) for x in (want if isinstance(want, list) else [want[k] for k in got])]
                        if not same:
                            viol("records:%s-wrong" % fname, "%s decodes to %r, declared %r" % (fname, got, want), art)
                    elif os.path.exists(p):
                        viol("records:%s-unexpected" % fname, "%s exists although nothing was declared" % fname, art)
        res["sample"] = {"args": item["combos"][-1][0], "options": item["combos"][-1][1]}
    elif item["kind"] == "records-multi":
        from .. import graphs
        variants = [([0, 1, "x"], {"k": 1, "f": 0}), ([False, True, "x"], {"k": True, "f": False}), ([0.0, 1.0, "x"], {"k": 1.0, "f": 0.0})]
        names = ["e%d" % i for i in item["perm"]]
        cond = "".join(graphs.render_task("e%d" % i, "exp", [], par=True, args=variants[i][0], options=variants[i][1]) for i in item["perm"])
        cond += graphs.render_task("all", "group", [":" + n for n in names])
        res["evals"] += 1
        o = explore.execute({"files": {"COND": cond}, "argv": ["run", "//:all", "-j", str(item["jobs"])], "behaviours": {}}, name="c10m")
        art = dict(item)
        spawned = {e[2]: e[3] for e in o.vk.log if e[0] == "spawn"}
        res["sigs"].add(explore.sig([item["perm"], item["jobs"]]))
        for i in range(3):
            sp = spawned.get("//:e%d" % i)
            if sp is None:
                viol("records:not-run", "experiment e%d of three was not spawned: %s" % (i, o.res.err_text[:200]), art)
                continue
            for fname, want in (("args.json", variants[i][0]), ("options.json", variants[i][1])):
                try:
                    with open(os.path.join(sp["out"], fname), encoding="utf-8") as f:
                        got = json.load(f)
                except (OSError, ValueError) as ex:
                    viol("records:%s-missing" % fname, "%s missing/unreadable for %r: %s" % (fname, want, ex), art)
                    continue
                gv = got if isinstance(got, list) else [got.get(k) for k in want] if isinstance(got, dict) else None
                wv = want if isinstance(want, list) else list(want.values())
                if got != want or gv is None or [type(x) for x in gv] != [type(x) for x in wv]:
                    viol("records:%s-wrong-among-equal" % fname, "%s of //:e%d decodes to %r, declared %r (listing order %r, --jobs %d)"
                         % (fname, i, got, want, names, item["jobs"]), art)
        res["sample"] = {"declared": [list(v) for v in variants], "listing_order": names, "jobs": item["jobs"]}
    elif item["kind"] == "real":
        _real(item["size"], res, viol)
    elif item["kind"] == "tee-threads":
        from .. import threads
        want = {"o": "".join(item["out"]).encode(), "e": "".join(item["err"]).encode()}
        outcomes = set()

        def on_exec(schedule, logs, fwd, error):
            res["evals"] += 1
            outcomes.add((logs["o"], logs["e"], fwd["o"], fwd["e"], error))
            art = {"kind": "tee-threads", "out": item["out"], "err": item["err"], "bound": item["bound"], "schedule": schedule}
            if error:
                viol("tee-threads:exception", "schedule %s: %s" % ("".join(schedule), error), art)
            for t, nm in (("o", "stdout"), ("e", "stderr")):
                if logs[t] != want[t]:
                    viol("tee-threads:log", "interleaving %s of the two tee threads: %s.log holds %r, the task wrote %r"
                         % ("".join(schedule), nm, logs[t][:40], want[t][:40]), art)
                if fwd[t] != want[t]:
                    viol("tee-threads:forward", "interleaving %s of the two tee threads: %r forwarded to cond's %s, the task wrote %r"
                         % ("".join(schedule), fwd[t][:40], nm, want[t][:40]), art)
            if res["sample"] is None and len(set(schedule)) == 2:
                res["sample"] = {"stdout_chunks": [c[:8] for c in item["out"]], "stderr_chunks": [c[:8] for c in item["err"]],
                                 "schedule_of_line_steps": "".join(schedule)}

        n, capped = threads.explore_tee([c.encode() for c in item["out"]], [c.encode() for c in item["err"]], item["bound"], on_exec)
        res["counters"]["thread_schedules"] = n
        res["counters"]["distinct_thread_outcomes"] = len(outcomes)
        res["sigs"].update(explore.sig([item["out"], item["err"], i]) for i in range(min(n, 50)))
        if capped:
            res.setdefault("caps", []).append("tee-threads: schedule cap reached")
    for key, (what, art) in found.items():
        res["violations"].append({"key": key, "what": what, "artefact": art})
    return res


def _real(size, res, viol):
    """A real `cond run` with a real task process writing `size` bytes to each stream (real pipes, real bash)."""
    prog = ("import sys,os\nn=%d\n"
            "o=bytes((i*7+1)%%256 for i in range(n)); e=bytes((i*11+2)%%256 for i in range(n))\n"
            "h=n//2\n"
            "sys.stdout.buffer.write(o[:h]); sys.stdout.buffer.flush(); sys.stderr.buffer.write(e[:h]); sys.stderr.buffer.flush()\n"
            "sys.stdout.buffer.write(o[h:]); sys.stdout.buffer.flush(); sys.stderr.buffer.write(e[h:]); sys.stderr.buffer.flush()\n" % size)
    for mode in ("sequential", "slot"):
        res["evals"] += 1
        cond = 'run_experiment(name="e", run="python3 w.py", args=["x", 1], options={"k": True}, parallelizable=%s)\n' % (mode == "slot")
        root = driver.fresh_project({"COND": cond, "w.py": prog}, name="c10real")
        env = dict(os.environ)
        env["PYTHONPATH"] = driver.REPO_SRC
        art = {"kind": "real", "size": size}
        try:
            p = subprocess.run(["/venv/bin/python", "-m", "conductor", "run", "//:e"] + (["-j", "2"] if mode == "slot" else []),
                               cwd=root, env=env, capture_output=True, timeout=60)
        except subprocess.TimeoutExpired:
            viol("real:%s:hang" % mode, "real cond run with a task writing %d bytes per stream did not finish within 60 s (%s mode)" % (size, mode), art)
            continue
        want_o = bytes((i * 7 + 1) % 256 for i in range(size))
        want_e = bytes((i * 11 + 2) % 256 for i in range(size))
        dirs = [d for d in os.listdir(os.path.join(root, "cond-out")) if d.startswith("e.task.")]
        art = {"kind": "real", "size": size}
        res["sigs"].add("real:%d:%s" % (size, mode))
        if p.returncode != 0 or len(dirs) != 1:
            viol("real:run-failed", "real cond run exits %r: %s" % (p.returncode, p.stderr[-300:]), art)
            continue
        d = os.path.join(root, "cond-out", dirs[0])
        try:
            with open(os.path.join(d, "stdout.log"), "rb") as f:
                lo = f.read()
            with open(os.path.join(d, "stderr.log"), "rb") as f:
                le = f.read()
        except OSError as ex:
            viol("real:%s:log-missing" % mode, "real run, %s mode: a log file of the execution cannot be read (%s: %s)" % (mode, type(ex).__name__, ex.filename and os.path.basename(ex.filename)), art)
            continue
        if lo != want_o or le != want_e:
            viol("real:%s:log" % mode, "real run, %d bytes per stream, %s mode: stdout.log %d bytes, stderr.log %d bytes" % (size, mode, len(lo), len(le)), art)
        if mode == "sequential" and (want_o not in p.stdout or (size and want_e not in p.stderr)):
            viol("real:sequential:forward", "real run: the task's bytes were not forwarded verbatim to cond's stdout/stderr", art)
        for fname, want_v in (("args.json", ["x", 1]), ("options.json", {"k": True})):
            try:
                with open(os.path.join(d, fname)) as f:
                    got_v = json.load(f)
            except (OSError, ValueError) as ex:
                viol("real:%s-unreadable" % fname, "real run: %s of an experiment with args and options cannot be read (%s)" % (fname, type(ex).__name__), art)
                continue
            if got_v != want_v:
                viol("real:%s" % fname.split(".")[0], "%s wrong in real run: %r" % (fname, got_v), art)
    res["sample"] = {"real_process_bytes_per_stream": size}
    res["counters"]["real_process_runs"] = 2


def replay(artefact):
    if artefact.get("kind") == "tee-threads" and artefact.get("schedule"):
        from .. import threads
        run = threads.TeeRun([c.encode() for c in artefact["out"]], [c.encode() for c in artefact["err"]], artefact["schedule"])
        logs, fwd = run.run()
        want = {"o": "".join(artefact["out"]).encode(), "e": "".join(artefact["err"]).encode()}
        got = []
        if run.error:
            got.append(("tee-threads:exception", run.error))
        for t in "oe":
            if logs[t] != want[t]:
                got.append(("tee-threads:log", "log differs"))
            if fwd[t] != want[t]:
                got.append(("tee-threads:forward", "forward differs"))
        return got
    r = run_item(artefact, "quick")
    return [(v["key"], v["what"]) for v in r["violations"]]
