"""C20 - task identifiers: one grammar, canonical form, distinct output locations."""
import itertools
import os
import pathlib
import string

from .. import driver, explore, fakegit

ID = "C20"
LEVEL = "exploration"
ALPHABET = ["a", "B", "7", "-", "_", "/", ":", ".", " ", "\n", "\t", "\u00e9", "\u0663"]   # + e-acute, ARABIC-INDIC DIGIT THREE
RULE = ("every string of length <= L (L=6 quick, 7 thorough) over the 13-symbol alphabet {a,B,7,-,_,/,:,.,space,\\n,\\t,e-acute,arabic digit} is fed to "
        "is_name_valid, from_str(require_prefix=True/False) and from_relative_str and compared with a hand-written recogniser of the "
        "documented grammar; every accepted identifier is round-tripped through str(); ':name' resolution is checked through the real "
        "TaskIndex for every package path x name; output directories of all pairs of distinct (identifier, version) are compared; "
        "names with control characters go end-to-end through `cond run --check`. non-trivial = accepted by implementation or reference "
        "(or a resolution / location case); distinct = distinct input"
        " Relative dependencies of all packages are also resolved inside ONE TaskIndex (same ':name' string listed by several COND files in one invocation, both orders).")
ASSUMPTIONS = [
    "strings whose status the documentation leaves open (a trailing '/' before ':') are don't-care",
    "exhaustive up to the stated length over the stated alphabet only",
]
CHUNK = 4
NO_CONFIRM = False

IDCH = set(string.ascii_letters + string.digits + "_-")


def ref_name(s):
    return len(s) > 0 and all(c in IDCH for c in s)


def ref_ident(s):
    """-> ('ok', path tuple, name) | ('no',) | ('dontcare',)"""
    rest = s[2:] if s.startswith("//") else s
    if rest.count(":") != 1:
        return ("no",)
    path, name = rest.split(":")
    if not ref_name(name):
        return ("no",)
    if path == "":
        return ("ok", (), name)
    segs = path.split("/")
    if all(ref_name(x) for x in segs):
        return ("ok", tuple(segs), name)
    if segs[-1] == "" and len(segs) >= 2 and all(ref_name(x) for x in segs[:-1]):
        return ("dontcare",)
    return ("no",)


def ref_relative(s):
    if s.startswith(":") and ref_name(s[1:]):
        return ("ok", s[1:])
    return ("no",)


def classify(s):
    if s.endswith("\n") and "\n" not in s[:-1]:
        return "trailing-newline"
    if any(ord(c) > 127 for c in s):
        return "non-ascii"
    for ch, nm in (("\n", "newline"), ("\t", "tab"), (" ", "space"), (".", "dot")):
        if ch in s:
            return nm
    return "other"


def warmup():
    driver.mods()


def _check_string(s, TI, InvalidTaskIdentifier, out):
    nontrivial = False
    # names
    impl = TI.is_name_valid(s)
    exp = ref_name(s)
    if impl or exp:
        nontrivial = True
    if impl != exp:
        out.append(("name:%s:%s" % ("accepts-invalid" if impl else "rejects-valid", classify(s)),
                    "is_name_valid(%r) = %r, documented grammar says %r" % (s, impl, exp), s))
    # full identifiers
    r = ref_ident(s)
    for req in (True, False):
        try:
            t = TI.from_str(s, require_prefix=req)
            got = ("ok", tuple(t.path.parts), t.name)
        except InvalidTaskIdentifier:
            got = ("no",)
        want = r
        if req and r[0] == "ok" and not s.startswith("//"):
            want = ("no",)
        if want[0] == "dontcare":
            continue
        if got[0] == "ok" or want[0] == "ok":
            nontrivial = True
        if got != want:
            what = "accepts-invalid" if want[0] == "no" else ("rejects-valid" if got[0] == "no" else "parses-differently")
            out.append(("ident:%s:%s" % (what, classify(s)),
                        "from_str(%r, require_prefix=%r) -> %r, documented grammar -> %r" % (s, req, got, want), s))
        if got[0] == "ok" and want[0] == "ok":
            # canonical form round trip
            try:
                t2 = TI.from_str(str(t))
                same = (t2 == t) and str(t2) == str(t)
            except InvalidTaskIdentifier:
                same = False
            if not same:
                out.append(("ident:roundtrip", "from_str(str(x)) != x for x = from_str(%r); str(x) = %r" % (s, str(t)), s))
    # relative identifiers
    rr = ref_relative(s)
    try:
        t = TI.from_relative_str(s, pathlib.Path("p", "q"))
        got = ("ok", t.name) if tuple(t.path.parts) == ("p", "q") else ("bad-path", tuple(t.path.parts))
    except InvalidTaskIdentifier:
        got = ("no",)
    if got[0] != "no" or rr[0] == "ok":
        nontrivial = True
    if got != rr:
        out.append(("relative:%s:%s" % ("accepts-invalid" if rr[0] == "no" else "rejects-valid-or-misparses", classify(s)),
                    "from_relative_str(%r) -> %r, documented grammar -> %r" % (s, got, rr), s))
    return nontrivial


def items(tier):
    L = 6 if tier == "quick" else 7
    out = [{"kind": "short", "L": 2}]
    for a in ALPHABET:
        for b in ALPHABET:
            out.append({"kind": "prefix", "prefix": a + b, "L": L})
    out.append({"kind": "resolve"})
    out.append({"kind": "locations"})
    out.append({"kind": "e2e"})
    return out


def run_item(item, tier):
    from conductor.task_identifier import TaskIdentifier as TI
    from conductor.errors import InvalidTaskIdentifier
    res = {"evals": 0, "sigs": set(), "violations": [], "counters": {}, "sample": None}
    found = []
    seen_keys = set()
    if item["kind"] in ("short", "prefix"):
        if item["kind"] == "short":
            strings = ("".join(t) for n in range(0, item["L"]) for t in itertools.product(ALPHABET, repeat=n))
        else:
            p = item["prefix"]
            strings = (p + "".join(t) for n in range(0, item["L"] - 1) for t in itertools.product(ALPHABET, repeat=n))
        nt = 0
        first_nt = None
        for s in strings:
            res["evals"] += 1
            if _check_string(s, TI, InvalidTaskIdentifier, found):
                nt += 1
                if first_nt is None:
                    first_nt = s
        res["counters"]["nontrivial_strings"] = nt
        res["counters"]["strings"] = res["evals"]
        # distinct non-trivial inputs are counted exactly (every generated string is distinct)
        res["sigs"] = {"%s#%d" % (item.get("prefix", "short"), i) for i in range(nt)}
        if first_nt is not None:
            res["sample"] = {"string": first_nt, "reference": list(map(str, ref_ident(first_nt))), "name_valid": ref_name(first_nt)}
    elif item["kind"] == "resolve":
        _resolve(res, found)
    elif item["kind"] == "locations":
        _locations(res, found)
    elif item["kind"] == "e2e":
        _e2e(res, found)
    for key, what, art in found:
        if key in seen_keys:
            continue
        seen_keys.add(key)
        res["violations"].append({"key": key, "what": what, "artefact": {"kind": "string" if isinstance(art, str) else "case", "input": art}})
    return res


PKGS = ["", "a", "a/b", "a-b/c_d", "B7"]
NAMES = ["x", "a", "a-b", "B_7"]


def _resolve(res, found):
    """':name' listed in package P resolves to //P:name (a task of the same name exists in the other packages too)."""
    from conductor.parsing.task_index import TaskIndex
    from conductor.task_identifier import TaskIdentifier as TI
    files = {}
    for p in PKGS:
        text = ""
        for nm in NAMES:
            text += 'run_command(name="%s", run="true")\n' % nm
            text += 'run_command(name="dep-on-%s", run="true", deps=[":%s"])\n' % (nm, nm)
        files[(p + "/" if p else "") + "COND"] = text
    root = driver.fresh_project(files, name="resolve")
    for p in PKGS:
        for nm in NAMES:
            res["evals"] += 1
            idx = TaskIndex(pathlib.Path(root))
            tid = TI.from_str("//%s:dep-on-%s" % (p, nm))
            idx.load_transitive_closure(tid)
            deps = [str(d) for d in idx.get_task(tid).deps]
            want = ["//%s:%s" % (p, nm)]
            res["sigs"].add("resolve:%s:%s" % (p, nm))
            loaded = sorted(str(k) for k in idx.get_all_loaded_tasks())
            if deps != want or sorted([want[0], str(tid)]) != loaded:
                found.append(("resolve:wrong-directory", "':%s' listed in //%s/COND resolved to %s (loaded %s), expected %s"
                              % (nm, p, deps, loaded, want), {"pkg": p, "name": nm}))
    # a package directory reached through another name (symbolic link to a sibling / to a nested package): the COND file that lists
    # ':name' is, for this invocation, the one in the directory the identifier names
    for alias, target in (("alias", "a"), ("a-b/link", "../a/b"), ("deep/er/alias", "../../B7")):
        root3 = driver.fresh_project(files, name="resolve3")
        os.makedirs(os.path.dirname(os.path.join(root3, alias)) or root3, exist_ok=True)
        os.symlink(target, os.path.join(root3, alias))
        for nm in NAMES:
            res["evals"] += 1
            idx = TaskIndex(pathlib.Path(root3))
            tid = TI.from_str("//%s:dep-on-%s" % (alias, nm))
            try:
                idx.load_transitive_closure(tid)
                deps = [str(d) for d in idx.get_task(tid).deps]
                loaded = sorted(str(k) for k in idx.get_all_loaded_tasks())
            except Exception as ex:  # noqa
                deps, loaded = ["%s: %s" % (type(ex).__name__, ex)], []
            want = ["//%s:%s" % (alias, nm)]
            res["sigs"].add("resolve-alias:%s:%s" % (alias, nm))
            if deps != want or sorted([want[0], str(tid)]) != loaded:
                found.append(("resolve:wrong-directory-alias", "':%s' listed in the COND file of //%s (a symbolic link to %s) resolved to %s (loaded %s), "
                              "expected %s" % (nm, alias, target, deps, loaded, want), {"pkg": alias, "name": nm}))
    # the same relative strings listed by several COND files, all loaded by ONE index in one invocation (both orders)
    for order in (list(PKGS), list(reversed(PKGS))):
        deps = ["//%s:dep-on-%s" % (p, nm) for p in order for nm in NAMES]
        files2 = dict(files)
        files2["top/COND"] = 'group(name="top", deps=[%s])\n' % ", ".join('"%s"' % d for d in deps)
        root2 = driver.fresh_project(files2, name="resolve2")
        idx = TaskIndex(pathlib.Path(root2))
        idx.load_transitive_closure(TI.from_str("//top:top"))
        res["evals"] += 1
        loaded = {str(k) for k in idx.get_all_loaded_tasks()}
        for p in PKGS:
            for nm in NAMES:
                res["sigs"].add("resolve-shared:%s:%s:%s" % (order[0], p, nm))
                got = [str(d) for d in idx.get_task(TI.from_str("//%s:dep-on-%s" % (p, nm))).deps]
                want = ["//%s:%s" % (p, nm)]
                if got != want or want[0] not in loaded:
                    found.append(("resolve:wrong-directory-shared-index",
                                  "':%s' listed in //%s/COND resolved to %s when several COND files list the same relative "
                                  "dependency in one invocation (expected %s)" % (nm, p, got, want), {"pkg": p, "name": nm}))
    res["sample"] = {"cond_file": "a/b/COND", "dep": ":x", "expected": "//a/b:x"}


def _locations(res, found):
    """All pairs of distinct (identifier, version) map to distinct output directories (through conductor.lib.path.where)."""
    import conductor.lib.path as libpath
    segs = ["a", "b", "a-b"]
    paths = [""] + segs + ["%s/%s" % (x, y) for x in segs for y in segs]
    names = ["a", "b", "a-b"]
    locs = {}
    for kind, versions in (("run_command", [None]), ("run_experiment", [1, 12])):
        files = {}
        for p in paths:
            files[(p + "/" if p else "") + "COND"] = "".join('%s(name="%s", run="true")\n' % (kind, nm) for nm in names)
        for ver in versions:
            rows = None
            if ver is not None:
                rows = [("//%s:%s" % (p, nm), ver, None, 0) for p in paths for nm in names]
            root = driver.fresh_project(files, name="loc", index_rows=rows)
            old = os.getcwd()
            os.chdir(root)
            try:
                with driver.patched(driver.git_seam(fakegit.NO_GIT)):
                    for p in paths:
                        for nm in names:
                            res["evals"] += 1
                            ident = "//%s:%s" % (p, nm)
                            loc = libpath.where(ident, relative_to_project_root=True, non_existent_ok=True)
                            locs[(ident, ver)] = None if loc is None else str(loc)
            finally:
                os.chdir(old)
    keys = sorted(locs, key=str)
    for k in keys:
        res["sigs"].add("loc:%s@%s" % k)
        if locs[k] is None:
            found.append(("location:none", "no output location for %s version %s" % k, {"id": k[0], "version": k[1]}))
    pairs = 0
    for i in range(len(keys)):
        for j in range(i + 1, len(keys)):
            pairs += 1
            a, b = locs[keys[i]], locs[keys[j]]
            if a is not None and a == b:
                found.append(("location:collision", "%s@%s and %s@%s share the output directory %s"
                              % (keys[i] + keys[j] + (a,)), {"a": keys[i], "b": keys[j]}))
    res["counters"]["location_pairs"] = pairs
    res["sample"] = {"identifier": "//a-b/a:a-b", "version": 12, "location": locs.get(("//a-b/a:a-b", 12))}


def _e2e(res, found):
    """Names with a trailing newline / blank through `cond run --check` (exit status + ERROR line)."""
    cases = [("a\n", False), ("a\n\n", False), ("a b", False), ("a\t", False), ("", False), ("a.b", False), ("half\u00bd", False), ("caf\u00e9", False),
             ("a", True), ("a-b_7", True)]
    for nm, ok in cases:
        res["evals"] += 1
        files = {"COND": "run_command(name=%r, run='true')\nrun_command(name='top', run='true')\n" % (nm,)}
        root = driver.fresh_project(files, name="e2e")
        r = driver.run_cli(["run", "//:top", "--check"], root, git=fakegit.NO_GIT)
        accepted = r.exit == 0
        res["sigs"].add("e2e:%r" % nm)
        if accepted != ok or r.exc is not None or "Traceback" in r.err_text:
            found.append(("e2e:%s:%s" % ("accepts-invalid" if accepted else "rejects-valid", classify(nm)),
                          "`cond run --check` with task name %r: exit %r, stderr %r" % (nm, r.exit, r.err_text[:200]),
                          {"name": nm}))
    # identifiers that reach Conductor through a COND file's `deps` or through the version index obey the same grammar
    for dep, ok in (("//exp:bench", True), (":top2", True), ("exp:bench", False), ("exp/:bench", False), ("//exp:bench ", False), ("//exp//:bench", False),
                    ("top2", False), ("////exp:bench", False)):
        res["evals"] += 1
        files = {"COND": 'run_command(name="top", run="true", deps=[%r])\nrun_command(name="top2", run="true")\n' % dep, "exp/COND": 'run_command(name="bench", run="true")\n'}
        root = driver.fresh_project(files, name="e2e3")
        r = driver.run_cli(["run", "//:top", "--check"], root, git=fakegit.NO_GIT)
        res["sigs"].add("e2e-dep:%r" % dep)
        if (r.exit == 0) != ok or r.exc is not None or "Traceback" in r.err_text:
            found.append(("e2e:dep:%s" % ("accepts-invalid" if r.exit == 0 else "rejects-valid"),
                          "dependency spelled %r: `cond run --check` exits %r, stderr %r" % (dep, r.exit, r.err_text[:200]), {"dep": dep}))
    for ident in ("//a/../b:x", "//b:x y", "b:x", "//b:x\n", "//b/:x/", "//b::x", ""):
        for cmd in (["gc", "-n"], ["archive", "-o", "OUT"]):
            res["evals"] += 1
            root = driver.fresh_project({"COND": "", "b/COND": 'run_experiment(name="x", run="true")\n'}, name="e2e4",
                                        index_rows=[(ident, 5, None, 0)], pre_tree={"cond-out/b/x.task.5/f": "x"})
            argv = [a if a != "OUT" else os.path.join(root, "o.tar.gz") for a in cmd]
            r = driver.run_cli(argv, root, git=fakegit.NO_GIT)
            res["sigs"].add("e2e-row:%r:%s" % (ident, cmd[0]))
            if r.exit == 0 and r.exc is None:
                found.append(("e2e:index-row:accepts-invalid", "version index row with identifier %r: `cond %s` accepts it (exit 0)" % (ident, " ".join(cmd)),
                              {"row": ident, "cmd": cmd[0]}))
    # one grammar for every command: run --check, where and archive accept / reject the same spellings of an identifier
    files = {"COND": 'run_experiment(name="top", run="true")\n', "exp/COND": 'run_experiment(name="bench", run="true")\n'}
    spellings = [("//exp:bench", True), ("exp:bench", True), ("//:top", True), (":top", True), ("//exp/:bench", None), ("exp/:bench", None),
                 ("//exp:bench\n", False), ("exp bench", False), ("//exp:", False), ("exp", False), ("///exp:bench", False), ("//exp::bench", False)]
    rows = [("//exp:bench", 5, None, 0), ("//:top", 6, None, 0)]
    pre = {"cond-out/exp/bench.task.5/f": "x", "cond-out/top.task.6/f": "y"}
    for sp, ok in spellings:
        verdicts = {}
        for cmd in (["run", sp, "--check"], ["where", sp], ["archive", sp, "-o", "OUT"]):
            res["evals"] += 1
            root = driver.fresh_project(files, name="e2e2", index_rows=rows, pre_tree=pre)
            argv = [a if a != "OUT" else os.path.join(root, "o.tar.gz") for a in cmd]
            r = driver.run_cli(argv, root, git=fakegit.NO_GIT)
            invalid = "invalid" in r.err_text.lower() and "identifier" in r.err_text.lower()
            verdicts[cmd[0]] = "rejected-as-invalid" if (r.exit != 0 and invalid) else ("ok" if r.exit == 0 else "other-error")
            if r.exc is not None:
                verdicts[cmd[0]] = "exception:%s" % type(r.exc).__name__
        res["sigs"].add("cli:%r" % sp)
        if len(set(verdicts.values())) != 1:
            found.append(("cli:commands-disagree", "identifier %r: %s (every command must apply the same grammar)" % (sp, verdicts), {"name": sp}))
        elif ok is True and set(verdicts.values()) != {"ok"}:
            found.append(("cli:valid-rejected", "identifier %r rejected: %s" % (sp, verdicts), {"name": sp}))
        elif ok is False and set(verdicts.values()) == {"ok"}:
            found.append(("cli:invalid-accepted", "identifier %r accepted by all commands" % (sp,), {"name": sp}))
    res["sample"] = res["sample"] or {"cond_name": "a\\n", "expected": "rejected with ERROR"}


def replay(artefact):
    from conductor.task_identifier import TaskIdentifier as TI
    from conductor.errors import InvalidTaskIdentifier
    found = []
    if artefact["kind"] == "string":
        _check_string(artefact["input"], TI, InvalidTaskIdentifier, found)
    else:
        res = {"evals": 0, "sigs": set(), "violations": [], "counters": {}, "sample": None}
        inp = artefact["input"]
        if "pkg" in inp:
            _resolve(res, found)
        elif "a" in inp or "id" in inp:
            _locations(res, found)
        else:
            _e2e(res, found)
    return [(k, w) for k, w, _ in found]
