"""C14 - dependency graphs are validated soundly before anything runs."""
import itertools
import os
import pathlib

from .. import driver, explore, fakegit, vk as vkmod

ID = "C14"
LEVEL = "exploration"
RULE = ("every directed graph on n<=3 task names given as *ordered* dep lists (self-loops included; 16^3 = 4096 ordered graphs), plus "
        "every placement of one dangling edge and of one duplicated edge, x every choice of target (incl. an undefined one) x tasks "
        "spread over 1-2 COND files, through TaskIndex.load_transitive_closure; all n<=2 graphs with variants and all n=3 base graphs "
        "every rooted DAG shape on 4 and 5 tasks in every listing order (all targets); end-to-end through `cond run T` and `cond run --check T` under the virtual kernel (spawn count observed); whole-project "
        "validation (load_all_tasks_in_cond_file + validate_all_loaded_tasks, explorer get_task_graph) for all graphs in every "
        "definition order (also through the real `git ls-files` with the project at the root of / nested inside the repository); graphs produced by the run_experiment_group macro (1-3 instances x chained or not x 9 group dep lists incl. "
        "dangling, self-referencing and duplicated ones x the dep list object reused by a later task), every target; oracle = reachability / cycle / dangling / duplicate reference. non-trivial = graph with >=1 edge; "
        "distinct = distinct (graph, target, layout)")
ASSUMPTIONS = [
    "when several defect classes are reachable from T any one of the applicable errors is accepted",
    "whole-project alphabet excludes duplicated edges (those are load errors, not validation results)",
    "thorough adds n=4 base graphs (65536 edge sets, canonical listing order and reversed)",
]
CHUNK = 16


def warmup():
    driver.mods()


def ordered_lists(universe):
    out = []
    for r in range(len(universe) + 1):
        out.extend(itertools.permutations(universe, r))
    return out


def ref_verdict(deps, defined, target):
    """deps: {node: [dep names in order]}; defined: set; -> set of applicable verdicts ('ok' alone if none)."""
    if target not in defined:
        return {"notfound"}
    reach, stack = set(), [target]
    while stack:
        x = stack.pop()
        if x in reach:
            continue
        reach.add(x)
        if x in defined:
            stack.extend(deps[x])
    out = set()
    if any(x not in defined for x in reach):
        out.add("notfound")
    for x in reach & defined:
        if len(set(deps[x])) != len(deps[x]):
            out.add("duplicate")
    # cycle reachable from target
    color = {}

    def dfs(x):
        color[x] = 1
        for d in deps.get(x, []) if x in defined else []:
            if color.get(d) == 1:
                return True
            if color.get(d) is None and dfs(d):
                return True
        color[x] = 2
        return False

    if dfs(target):
        out.add("cycle")
    return out or {"ok"}


def render(deps, order, pkgs):
    """deps {name: [names]}, order: definition order of names, pkgs {name: pkg}; undefined names live in root.
    A dependency that appears a second time in one list is spelled differently (fully qualified instead of relative): the same task
    under two spellings is still a duplicate."""
    files = {}
    for nm in order:
        dl = []
        seen_here = set()
        for d in deps[nm]:
            dp = pkgs.get(d, "")
            rel_ok = dp == pkgs[nm]
            if d in seen_here and rel_ok:
                dl.append("//%s:%s" % (dp, d))
            else:
                dl.append(":" + d if rel_ok else "//%s:%s" % (dp, d))
            seen_here.add(d)
            continue
            dl.append(":" + d if dp == pkgs[nm] else "//%s:%s" % (dp, d))
        text = 'run_command(name="%s", run="true", deps=[%s])\n' % (nm, ", ".join('"%s"' % x for x in dl))
        f = (pkgs[nm] + "/" if pkgs[nm] else "") + "COND"
        files[f] = files.get(f, "") + text
    files.setdefault("COND", "")
    return files


NAMES = ["a", "b", "c", "d"]
NAMES5 = ["a", "b", "c", "d", "e"]


def graph_variants(n, tier):
    """yield (deps dict, tag)"""
    names = NAMES[:n]
    lists = ordered_lists(names)
    for combo in itertools.product(lists, repeat=n):
        base = {nm: list(c) for nm, c in zip(names, combo)}
        yield base, "base"
        # one dangling edge at every position of every node
        for nm in names:
            for pos in range(len(base[nm]) + 1):
                if n == 3 and tier == "quick" and pos != len(base[nm]):
                    continue
                v = {k: list(x) for k, x in base.items()}
                v[nm].insert(pos, "zz")
                yield v, "dangling"
        # one duplicated edge
        for nm in names:
            for i, d in enumerate(base[nm]):
                if n == 3 and tier == "quick" and i > 0:
                    continue
                for pos in range(i + 1, len(base[nm]) + 1):
                    if n == 3 and tier == "quick" and pos != len(base[nm]):
                        continue
                    v = {k: list(x) for k, x in base.items()}
                    v[nm].insert(pos, d)
                    yield v, "dup"


def items(tier):
    out = []
    for n in (1, 2, 3):
        batch = []
        for deps, tag in graph_variants(n, tier):
            batch.append((deps, tag))
            if len(batch) >= 400:
                out.append({"kind": "closure", "n": n, "graphs": batch})
                batch = []
        if batch:
            out.append({"kind": "closure", "n": n, "graphs": batch})
    # end-to-end
    for n in (1, 2):
        batch = [(d, t) for d, t in graph_variants(n, tier)]
        for i in range(0, len(batch), 40):
            out.append({"kind": "e2e", "n": n, "graphs": batch[i:i + 40], "targets": "all"})
    # the requested task is an experiment that already has a recorded (cached) version: the graph below it is validated all the same
    batch = [(d, t) for d, t in graph_variants(2, tier)] + [(d, t) for d, t in graph_variants(1, tier)]
    for i in range(0, len(batch), 40):
        out.append({"kind": "e2e", "n": 2, "graphs": batch[i:i + 40], "targets": "first", "cached_root": True})
    out.append({"kind": "include-sharing"})
    names = NAMES[:3]
    lists = ordered_lists(names)
    base3 = [{nm: list(c) for nm, c in zip(names, combo)} for combo in itertools.product(lists, repeat=3)]
    for i in range(0, len(base3), 64):
        out.append({"kind": "e2e", "n": 3, "graphs": [(g, "base") for g in base3[i:i + 64]], "targets": "first"})
    # whole project
    for n in (1, 2, 3):
        batch = [(d, t) for d, t in graph_variants(n, tier) if t != "dup"]
        for i in range(0, len(batch), 300):
            out.append({"kind": "project", "n": n, "graphs": batch[i:i + 300]})
    batch = [(d, t) for d, t in graph_variants(2, tier) if t != "dup"] + [(d, t) for d, t in graph_variants(1, tier) if t != "dup"]
    out.append({"kind": "routes", "graphs": batch})
    # the same entry point over the REAL git (git ls-files), project at the repository root and nested inside the repository
    base2 = [(d, t) for d, t in graph_variants(2, tier) if t != "dup"]
    for i in range(0, len(base2), 20):
        out.append({"kind": "routes", "graphs": base2[i:i + 20], "realgit": True})
    # every rooted DAG shape on 4 and 5 tasks in EVERY listing order (acyclic, complete: must be accepted for every target)
    from .. import rungrid
    for n in (4, 5):
        gs = [[list(d) for d in g] for g in rungrid.graphs_upto((n,))]
        for i in range(0, len(gs), 150):
            out.append({"kind": "closure", "n": n, "graphs": [({NAMES5[k]: [NAMES5[j] for j in d] for k, d in enumerate(g)}, "dag") for g in gs[i:i + 150]]})
    # graphs whose tasks come out of the run_experiment_group macro (instances x-1..x-k, optionally chained, shared group deps)
    macro = []
    for k in (1, 2, 3):
        for chain in (False, True):
            for gdeps in ([], ["a"], ["a", "b"], ["b", "a"], ["zz"], ["g"], ["x-1"], ["x-%d" % k], ["a", "a"]):
                for reuse in (False, True):
                    macro.append({"k": k, "chain": chain, "gdeps": gdeps, "reuse": reuse})
    for i in range(0, len(macro), 12):
        out.append({"kind": "macro", "cases": macro[i:i + 12]})
    if tier == "thorough":
        names4 = NAMES[:4]
        masks = list(range(1 << 16))
        for i in range(0, len(masks), 1024):
            out.append({"kind": "closure4", "masks": masks[i:i + 1024]})
    return out


def impl_closure(root, target_str):
    from conductor.parsing.task_index import TaskIndex
    from conductor.task_identifier import TaskIdentifier as TI
    from conductor.errors import CyclicDependency, TaskNotFound, DuplicateDependency
    idx = TaskIndex(pathlib.Path(root))
    try:
        idx.load_transitive_closure(TI.from_str(target_str))
        return "ok", idx
    except CyclicDependency:
        return "cycle", idx
    except TaskNotFound:
        return "notfound", idx
    except DuplicateDependency:
        return "duplicate", idx
    except Exception as ex:  # noqa
        return "internal:%s" % type(ex).__name__, idx


def layouts(names):
    yield {nm: "" for nm in names}
    if len(names) >= 2:
        yield {nm: ("p" if i % 2 else "") for i, nm in enumerate(names)}
        yield {nm: ("" if i == 0 else "p") for i, nm in enumerate(names)}


def run_item(item, tier):
    res = {"evals": 0, "sigs": set(), "violations": [], "counters": {}, "sample": None}
    found = {}

    def viol(key, what, art):
        if key not in found:
            found[key] = (what, art)

    kind = item["kind"]
    if kind in ("closure", "closure4"):
        if kind == "closure":
            graphs_ = item["graphs"]
        else:
            names = NAMES[:4]
            pairs = [(x, y) for x in names for y in names]
            graphs_ = []
            for m in item["masks"]:
                deps = {nm: [] for nm in names}
                for k, (x, y) in enumerate(pairs):
                    if m >> k & 1:
                        deps[x].append(y)
                graphs_.append((deps, "base"))
                graphs_.append(({k: list(reversed(v)) for k, v in deps.items()}, "base"))
        for deps, tag in graphs_:
            names = sorted(deps)
            defined = set(names)
            lays = list(layouts(names)) if (len(names) <= 2 or (len(names) == 3 and (tag == "base" or tier == "thorough"))) else [next(layouts(names))]
            for li, pk in enumerate(lays):
                files = render(deps, names, pk)
                root = driver.fresh_project(files, name="c14")
                targets = names + (["zz"] if tag == "base" and li == 0 else [])
                for t in targets:
                    res["evals"] += 1
                    want = ref_verdict(deps, defined, t)
                    got, _ = impl_closure(root, "//%s:%s" % (pk.get(t, ""), t))
                    if any(deps.values()):
                        res["sigs"].add(explore.sig([deps, t, li]))
                    if got not in want:
                        viol("closure:%s-instead-of-%s" % (got, "+".join(sorted(want))),
                             "load_transitive_closure(%s) on %r (layout %r) -> %s, reference -> %s" % (t, deps, pk, got, sorted(want)),
                             {"kind": "closure", "deps": deps, "target": t, "pkgs": pk})
            if res["sample"] is None and tag == "dangling":
                res["sample"] = {"deps": deps, "target": names[0], "reference": sorted(ref_verdict(deps, defined, names[0]))}
    elif kind == "e2e":
        for deps, tag in item["graphs"]:
            names = sorted(deps)
            defined = set(names)
            pk = {nm: "" for nm in names}
            files = render(deps, names, pk)
            targets = names if item["targets"] == "all" else names[:1]
            rows = pre = None
            if item.get("cached_root"):
                files = {k: v.replace('run_command(name="%s"' % names[0], 'run_experiment(name="%s"' % names[0]) for k, v in files.items()}
                rows = [("//:" + names[0], 5, None, 0)]
                pre = {"cond-out/%s.task.5/result" % names[0]: "cached\n"}
            for t in targets:
                want = ref_verdict(deps, defined, t)
                for flags in (["--check"], []):
                    res["evals"] += 1
                    root = driver.fresh_project(files, name="c14e", index_rows=rows, pre_tree=pre)
                    vk = vkmod.VK(project_root=root)
                    r = driver.run_cli(["run", "//:" + t] + flags, root, vk=vk, git=fakegit.NO_GIT, clock=driver.Clock())
                    spawns = [e for e in vk.log if e[0] == "spawn"]
                    outdirs = [d for d in os.listdir(os.path.join(root, "cond-out")) if ".task" in d and not (rows and d == "%s.task.5" % names[0])]
                    res["sigs"].add(explore.sig([deps, t, flags, bool(item.get("cached_root"))]))
                    art = {"kind": "e2e", "deps": deps, "target": t, "flags": flags, "cached_root": bool(item.get("cached_root"))}
                    if r.exc is not None or "Traceback" in r.err_text:
                        viol("e2e:internal-error", "cond run %s %s on %r: %r %s" % (t, flags, deps, r.exc, r.err_text[-300:]), art)
                        continue
                    if want == {"ok"}:
                        if r.exit != 0:
                            viol("e2e:valid-graph-rejected", "cond run %s %s on %r exits %r: %s" % (t, flags, deps, r.exit, r.err_text[:300]), art)
                        if flags and (spawns or outdirs):
                            viol("e2e:check-executed", "--check spawned %d tasks / created %s" % (len(spawns), outdirs), art)
                    else:
                        if r.exit == 0:
                            viol("e2e:invalid-graph-accepted", "cond run %s %s on %r exits 0, reference %s" % (t, flags, deps, sorted(want)), art)
                        if spawns or outdirs:
                            viol("e2e:executed-despite-error", "graph error %s but %d tasks spawned / outputs %s" % (sorted(want), len(spawns), outdirs), art)
                        if r.exit != 0:
                            names_ = {"cycle": "cyclic", "notfound": "could not be found", "duplicate": "more than once"}
                            txt = r.err_text.lower()
                            hit = [k for k in want if _mentions(k, txt)]
                            if not r.err_text.startswith("ERROR:") or not hit:
                                viol("e2e:wrong-diagnostic", "reference %s but stderr is %r" % (sorted(want), r.err_text[:300]), art)
        res["sample"] = {"deps": item["graphs"][0][0], "target": "a", "flags": ["--check"]}
    elif kind == "include-sharing":
        # several COND files include() the same settings file and extend the list it defines IN PLACE before using it as `deps`:
        # each file evaluates its own copy, so every graph below is acyclic, complete and duplicate-free
        common = "BASE = []\nEXTRA = {'deps': [\":setup\"]}\n"
        pkg = ('include("//common.cond")\nBASE += [":setup"]\nEXTRA["deps"].append(":fetch")\n'
               'run_command(name="setup", run="true")\nrun_command(name="fetch", run="true")\n'
               'run_command(name="main", run="true", deps=BASE)\nrun_command(name="other", run="true", deps=EXTRA["deps"])\n')
        files = {"common.cond": common, "a/COND": pkg, "b/COND": pkg, "c/d/COND": pkg,
                 "COND": 'group(name="top", deps=["//a:main", "//b:main", "//c/d:main", "//b:other", "//a:other"])\n'
                         'group(name="rev", deps=["//c/d:other", "//b:main", "//a:main"])\n'}
        art = {"kind": "include-sharing"}
        for t in ("//:top", "//:rev", "//b:main", "//c/d:other"):
            for flags in (["--check"], []):
                res["evals"] += 1
                root = driver.fresh_project(files, name="c14i")
                vk = vkmod.VK(project_root=root)
                r = driver.run_cli(["run", t] + flags, root, vk=vk, git=fakegit.NO_GIT, clock=driver.Clock())
                res["sigs"].add(explore.sig(["include-sharing", t, flags]))
                if r.exc is not None or "Traceback" in r.err_text:
                    viol("include-sharing:internal-error", "cond run %s %s: %r %s" % (t, flags, r.exc, r.err_text[-300:]), art)
                elif r.exit != 0:
                    viol("include-sharing:valid-graph-rejected", "cond run %s %s exits %r: %s" % (t, flags, r.exit, r.err_text[:300]), art)
        res["sample"] = {"check": "COND files sharing an include()d list they extend in place", "targets": ["//:top", "//:rev", "//b:main", "//c/d:other"]}
    elif kind == "macro":
        for c in item["cases"]:
            k, chain, gdeps, reuse = c["k"], c["chain"], c["gdeps"], c["reuse"]
            inst = ["x-%d" % (i + 1) for i in range(k)]
            # the documented expansion
            deps = {"a": [], "b": ["a"], "g": list(inst)}
            for i, nm in enumerate(inst):
                deps[nm] = list(gdeps) + ([inst[i - 1]] if chain and i else [])
            if reuse:
                deps["after"] = list(gdeps)
            defined = set(deps)
            dl = "[%s]" % ", ".join('":%s"' % d for d in gdeps)
            text = 'run_command(name="a", run="true")\nrun_command(name="b", run="true", deps=[":a"])\n'
            text += "D = %s\n" % dl
            text += ('run_experiment_group(name="g", run="true", experiments=[%s], chain_experiments=%r, deps=%s)\n'
                     % (", ".join('ExperimentInstance(name="%s", options={"i": %d})' % (nm, i) for i, nm in enumerate(inst)), chain, "D" if reuse else dl))
            if reuse:
                text += 'run_command(name="after", run="true", deps=D)\n'
            files = {"COND": text}
            art = {"kind": "macro", "case": c}
            for t in sorted(defined):
                want = ref_verdict(deps, defined, t)
                res["evals"] += 1
                root = driver.fresh_project(files, name="c14m")
                got, idx = impl_closure(root, "//:" + t)
                res["sigs"].add(explore.sig(["macro", c, t]))
                if got not in want:
                    viol("macro:closure:%s-instead-of-%s" % (got, "+".join(sorted(want))),
                         "load_transitive_closure(%s) on the expansion of %r -> %s, reference (%r) -> %s" % (t, c, got, deps, sorted(want)), art)
                    continue
                res["evals"] += 1
                vk = vkmod.VK(project_root=root)
                r = driver.run_cli(["run", "//:" + t, "--check"], root, vk=vk, git=fakegit.NO_GIT, clock=driver.Clock())
                spawns = [e for e in vk.log if e[0] == "spawn"]
                if r.exc is not None or "Traceback" in r.err_text:
                    viol("macro:internal-error", "cond run --check %s on the expansion of %r: %r %s" % (t, c, r.exc, r.err_text[-300:]), art)
                elif (want == {"ok"}) != (r.exit == 0):
                    viol("macro:e2e:%s" % ("valid-graph-rejected" if want == {"ok"} else "invalid-graph-accepted"),
                         "cond run --check %s on the expansion of %r exits %r (%s), reference %s" % (t, c, r.exit, r.err_text[:200], sorted(want)), art)
                elif spawns:
                    viol("macro:check-executed", "--check spawned %d tasks" % len(spawns), art)
        res["sample"] = {"case": item["cases"][0], "check": "graphs produced by the run_experiment_group macro"}
    elif kind == "project":
        from conductor.parsing.task_index import TaskIndex
        from conductor.errors import CyclicDependency, TaskNotFound
        for deps, tag in item["graphs"]:
            names = sorted(deps)
            defined = set(names)
            has_cycle = any("cycle" in ref_verdict(deps, defined, t) for t in names)
            dangling = any(d not in defined for v in deps.values() for d in v)
            indeg0 = sorted(nm for nm in names if not any(nm in deps[o] for o in names))
            orders = list(itertools.permutations(names))
            if len(names) == 3 and tag != "base" and tier == "quick":
                orders = [orders[0], orders[-1]]
            for oi, order in enumerate(orders):
                lays2 = [{nm: "" for nm in names}]
                if len(names) > 1 and (len(names) < 3 or tier == "thorough" or oi == 0):
                    lays2.append({nm: ("p" if i else "") for i, nm in enumerate(names)})
                for pk in lays2:
                    res["evals"] += 1
                    files = render(deps, list(order), pk)
                    root = driver.fresh_project(files, name="c14p")
                    idx = TaskIndex(pathlib.Path(root))
                    condfiles = sorted({(pk[nm] + "/" if pk[nm] else "") + "COND" for nm in order}, key=lambda f: [pk[n] for n in order].index(os.path.dirname(f)))
                    art = {"kind": "project", "deps": deps, "order": list(order), "pkgs": pk}
                    try:
                        for cf in condfiles:
                            idx.load_all_tasks_in_cond_file(pathlib.Path(cf))
                        roots = sorted(r.name for r in idx.validate_all_loaded_tasks())
                        got = "ok"
                    except CyclicDependency:
                        got = "cycle"
                    except TaskNotFound:
                        got = "notfound"
                    except Exception as ex:  # noqa
                        got = "internal:%s" % type(ex).__name__
                    if any(deps.values()):
                        res["sigs"].add(explore.sig([deps, order, sorted(pk.items())]))
                    if has_cycle or dangling:
                        ok = (got == "cycle" and has_cycle) or (got == "notfound" and dangling)
                        if not ok:
                            viol("project:%s-with-cycle=%s-dangling=%s" % (got, has_cycle, dangling),
                                 "whole-project validation of %r (order %s) -> %s" % (deps, order, got), art)
                    else:
                        if got != "ok":
                            viol("project:valid-rejected", "whole-project validation of %r (order %s) -> %s" % (deps, order, got), art)
                        elif roots != indeg0:
                            viol("project:wrong-roots", "roots %s, expected %s for %r (order %s)" % (roots, indeg0, deps, order), art)
        res["sample"] = {"deps": item["graphs"][-1][0], "check": "validate_all_loaded_tasks in every definition order"}
    elif kind == "routes":
        # the explorer's whole-project entry: load_all_known_tasks(git) (git ls-files) + validate_all_loaded_tasks()
        from conductor.parsing.task_index import TaskIndex
        from conductor.utils.git import Git
        from conductor.errors import CyclicDependency, TaskNotFound
        m = driver.mods()
        for deps, tag in item["graphs"]:
            names = sorted(deps)
            defined = set(names)
            has_cycle = any("cycle" in ref_verdict(deps, defined, t) for t in names)
            dangling = any(d not in defined for v in deps.values() for d in v)
            indeg0 = sorted("//p:" + nm if i else "//:" + nm for i, nm in enumerate(names)
                            if not any(nm in deps[o] for o in names))
            pk = {nm: ("p" if i else "") for i, nm in enumerate(names)}
            files = render(deps, names, pk)
            for nest in (("", "sub/proj") if item.get("realgit") else (None,)):
              res["evals"] += 1
              if nest is None:
                root = driver.fresh_project(files, name="c14r")
                git = fakegit.FakeGit(commits={"c": []}, head="c", files=sorted(files))
              else:
                import subprocess as _sp
                top = driver.fresh_project({os.path.join(nest, k): v for k, v in dict(files, **{"cond_config.toml": ""}).items()}, name="c14g")
                root = os.path.join(top, nest) if nest else top
                git = fakegit.RealGit()
                with driver.unguarded():
                    for argv in (["git", "init", "-q"], ["git", "add", "-A"]):
                        _sp.run(argv, cwd=top, check=True, capture_output=True,
                                env=dict(os.environ, GIT_CONFIG_NOSYSTEM="1", HOME="/nonexistent", GIT_CEILING_DIRECTORIES=driver.scratch_root()))
              art = {"kind": "routes", "deps": deps, "realgit": bool(item.get("realgit")), "nested": nest}
              with driver.patched(driver.git_seam(git)):
                  idx = TaskIndex(pathlib.Path(root))
                  try:
                      load = idx.load_all_known_tasks(Git(pathlib.Path(root)))
                      errs = [e for _, _, e in load if e is not None]
                      roots = sorted(str(t) for t in idx.validate_all_loaded_tasks())
                      tasks = sorted(str(t) for t in idx.get_all_loaded_tasks())
                      got = "ok" if not errs else "loaderror"
                  except (CyclicDependency, TaskNotFound):
                      got = "rejected"
                  except Exception as ex:  # noqa
                      got = "internal:%s" % type(ex).__name__
              res["sigs"].add(explore.sig(["routes", deps, nest]))
              if has_cycle or dangling:
                  if got != "rejected":
                      viol("routes:invalid-accepted", "load_all_known_tasks+validate on %r -> %s" % (deps, got), art)
              else:
                  if got != "ok":
                      viol("routes:valid-rejected", "load_all_known_tasks+validate on %r -> %s" % (deps, got), art)
                  elif roots != indeg0 or tasks != sorted("//%s:%s" % (pk[nm], nm) for nm in names):
                      viol("routes:wrong-graph", "on %r -> roots %s (expected %s) tasks %s" % (deps, roots, indeg0, tasks), art)
        res["sample"] = {"deps": item["graphs"][0][0], "check": "explorer path: load_all_known_tasks + validate_all_loaded_tasks"}
    for key, (what, art) in found.items():
        res["violations"].append({"key": key, "what": what, "artefact": art})
    return res


def _mentions(kind, txt):
    if kind == "cycle":
        return "cycl" in txt
    if kind == "notfound":
        return "not found" in txt or "could not be found" in txt or "could not find" in txt
    if kind == "duplicate":
        return "more than once" in txt or "duplicate" in txt or "multiple times" in txt
    return False


def replay(artefact):
    k = artefact["kind"]
    if k == "include-sharing":
        r = run_item({"kind": "include-sharing"}, "quick")
        return [(v["key"], v["what"]) for v in r["violations"]]
    if k == "macro":
        r = run_item({"kind": "macro", "cases": [artefact["case"]]}, "quick")
        return [(v["key"], v["what"]) for v in r["violations"]]
    deps = artefact["deps"]
    if k == "closure" and artefact.get("pkgs") is not None:
        # exactly the reported (graph, layout, target)
        names = sorted(deps)
        root = driver.fresh_project(render(deps, names, artefact["pkgs"]), name="c14")
        t = artefact["target"]
        want = ref_verdict(deps, set(names), t)
        got, _ = impl_closure(root, "//%s:%s" % (artefact["pkgs"].get(t, ""), t))
        if got in want:
            return []
        return [("closure:%s-instead-of-%s" % (got, "+".join(sorted(want))), "load_transitive_closure(%s) on %r (layout %r) -> %s, reference -> %s"
                 % (t, deps, artefact["pkgs"], got, sorted(want)))]
    if k == "closure":
        item = {"kind": "closure", "graphs": [(deps, "replay")]}
    elif k == "e2e":
        item = {"kind": "e2e", "graphs": [(deps, "replay")], "targets": "all", "cached_root": bool(artefact.get("cached_root"))}
    elif k == "project":
        item = {"kind": "project", "graphs": [(deps, "replay")]}
    else:
        item = {"kind": "routes", "graphs": [(deps, "replay")], "realgit": bool(artefact.get("realgit"))}
    r = run_item(item, "quick")
    return [(v["key"], v["what"]) for v in r["violations"]]
