"""
Virtual kernel (VK): the process table, SIGCHLD semantics and self-pipe that Conductor's executor talks
to, with every nondeterministic environment decision turned into an explicit choice owned by a Chooser.

Only the *environment* is modelled here.  The code under test is the real Conductor code and the real
CPython `subprocess.Popen` lifecycle (`__init__`, `_get_handles`, `__del__`, `_internal_poll`, `_active`,
`_cleanup`); FakePopen overrides `_execute_child` only.

Kernel rules implemented (each is covered by the conformance suite in conformance.py):
  * a child that exits becomes a zombie and sets SIGCHLD pending; pending signals coalesce;
  * waitpid(-1, WNOHANG): reaps one zombie, else (0,0) if live children exist, else ECHILD;
  * waitpid(pid, WNOHANG): reaps that zombie, (0,0) if running, ECHILD if reaped/unknown;
  * getpgid(pid): pgid for running and zombie children, ESRCH once reaped;
  * killpg(pgid, SIGTERM): ESRCH if the group has no live or zombie member; running members die (status 15);
  * CPython runs the Python-level handler at the next bytecode boundary in the main thread: at the
    latest right after the C call during which the signal arrived, and handlers may nest.
"""
import errno
import os
import signal as _real_signal
import subprocess as _real_subprocess
import sys
import types


class HarnessError(Exception):
    """The harness itself is inconsistent (replay divergence, seam escaped...). Never a violation."""


class Deadlock(Exception):
    """Conductor would block forever: blocked in read(), pipe empty, nothing pending, no running child."""


class Horizon(Exception):
    """Too many scheduling points: livelock guard."""


class KilledByDefaultAction(BaseException):
    """A terminating signal reached the process while no handler was installed: the process dies on the spot."""


class PipeStall(Exception):
    """A task blocked writing to its stdout/stderr because Conductor stopped reading the pipe."""


def _write_all(fd, chunk, timeout=8.0):
    """Write like a child process would (blocking), but give up when nobody drains the pipe."""
    import select
    import time as _t
    view = memoryview(chunk)
    os.set_blocking(fd, False)
    deadline = _t.time() + timeout
    try:
        while len(view):
            try:
                n = os.write(fd, view)
                view = view[n:]
                deadline = _t.time() + timeout
            except BlockingIOError:
                left = deadline - _t.time()
                if left <= 0:
                    raise PipeStall("task blocked for %.0f s writing %d remaining bytes: its pipe is not being read" % (timeout, len(view)))
                select.select([], [fd], [], min(left, 0.5))
            except BrokenPipeError:
                return  # reader closed: a real child would get SIGPIPE/EPIPE
    finally:
        try:
            os.set_blocking(fd, True)
        except OSError:
            pass


def st_exit(code):
    return (code & 0xFF) << 8


def st_signal(sig):
    return sig & 0x7F


class VProc:
    __slots__ = ("pid", "key", "name", "env", "cwd", "argv", "out_fd", "err_fd", "state", "status", "no_effects",
                 "pgid", "popen_kw", "behaviour", "unrelated")

    def __init__(self, pid):
        self.pid = pid
        self.key = None
        self.name = None
        self.env = None
        self.cwd = None
        self.argv = None
        self.out_fd = None
        self.err_fd = None
        self.no_effects = False
        self.state = "run"  # run | zombie | reaped
        self.status = None
        self.pgid = pid
        self.popen_kw = None
        self.behaviour = None
        self.unrelated = False


class DefaultChooser:
    """Takes option 0 everywhere (the canonical schedule)."""

    def choose(self, options, costs, ctx=None):
        return 0


class VK:
    FIRST_PID = 1000

    def __init__(self, chooser=None, behaviours=None, project_root=None, horizon=4000,
                 exit_menu=None, unrelated=False, on_event=None):
        self.chooser = chooser or DefaultChooser()
        self.behaviours = behaviours or {}
        self.project_root = str(project_root) if project_root else None
        self.horizon = horizon
        self.procs = {}
        self.next_pid = self.FIRST_PID
        self.pending = False
        self.handler = _real_signal.SIG_DFL
        self.pipe_r = None
        self.pipe_w = None
        self.pipe_count = 0
        self.log = []
        self.npoints = 0
        self.fatal = None
        self.killpg_calls = []
        self.in_handler = 0
        self.states = set()
        self.transitions = 0
        self.on_event = on_event
        self.max_running = 0
        self.abort_on = None
        self.wakeup_fd = -1
        self.sigmask = set()
        for k, b in self.behaviours.items():
            if b.get("sigint_while_running"):
                self.abort_on = k
        if unrelated:
            # a child of the Conductor process that is not one of its tasks (e.g. inherited across exec); `unrelated`
            # may give its wait status (default 0)
            p = VProc(999)
            p.unrelated = True
            p.key = "<unrelated>"
            p.behaviour = {"status": 0 if unrelated is True else int(unrelated)}
            self.procs[999] = p

    # ------------------------------------------------------------------ helpers
    def ev(self, *e):
        self.log.append(e)
        if self.on_event is not None:
            self.on_event(self, e)

    def _fail(self, exc):
        if self.fatal is None:
            self.fatal = exc
        raise exc

    def running(self):
        return [p for p in self.procs.values() if p.state == "run"]

    def zombies(self):
        return [p for p in self.procs.values() if p.state == "zombie"]

    def state_sig(self):
        return (
            tuple(sorted((p.key, p.state, p.status) for p in self.procs.values())),
            self.pending, self.pipe_count, self.in_handler,
        )

    def _note_state(self):
        self.states.add(self.state_sig())

    # ------------------------------------------------------------------ environment actions
    def _do_exit(self, proc, status=None, why="exit"):
        assert proc.state == "run"
        if status is None:
            status = proc.behaviour.get("status", 0)
        proc.state = "zombie"
        proc.status = status
        self.transitions += 1
        self._child_exit_effects(proc)
        self.pending = True
        if self.wakeup_fd != -1 and self.wakeup_fd == self.pipe_w and callable(self.handler):
            # signal.set_wakeup_fd(): CPython's C-level handler writes the signal number to the fd as the signal arrives
            try:
                os.write(self.pipe_w, b"\x11")
                self.pipe_count += 1
            except BlockingIOError:
                pass
        self.ev(why, proc.pid, proc.key, status)
        self._note_state()

    def _child_exit_effects(self, proc):
        b = proc.behaviour or {}
        if proc.no_effects:
            # the child never got as far as exec: it wrote nothing
            for attr in ("out_fd", "err_fd"):
                fd = getattr(proc, attr)
                if fd is not None:
                    os.close(fd)
                    setattr(proc, attr, None)
            return
        try:
            if b.get("writes"):
                # interleaved writes: [("o"|"e", bytes), ...] in this order
                for which, chunk in b["writes"]:
                    fd = proc.out_fd if which == "o" else proc.err_fd
                    if fd is None:
                        continue
                    _write_all(fd, chunk)
            for attr, data in (("out_fd", b.get("stdout", b"")), ("err_fd", b.get("stderr", b""))):
                fd = getattr(proc, attr)
                if fd is None:
                    continue
                try:
                    chunks = data if isinstance(data, (list, tuple)) else [data]
                    for chunk in chunks:
                        _write_all(fd, chunk)
                finally:
                    if attr == "out_fd" and b.get("linger") is not None:
                        # a background grandchild inherited stdout and outlives the shell: the pipe stays open until
                        # release_lingering() (the grandchild's exit)
                        pass
                    else:
                        os.close(fd)
                        setattr(proc, attr, None)
            out = proc.env.get("COND_OUT") if proc.env else None
            if out and os.WIFEXITED(proc.status) and os.WEXITSTATUS(proc.status) == 0 and os.path.isdir(out):
                if not b.get("quiet"):
                    with open(os.path.join(out, "DONE"), "w") as f:
                        f.write("%s\n%s\n%s\n" % (proc.key, out, proc.env.get("COND_DEPS", "")))
                for rel, content in (b.get("files") or {}).items():
                    path = os.path.join(out, rel)
                    os.makedirs(os.path.dirname(path), exist_ok=True)
                    with open(path, "wb") as f:
                        f.write(content)
                for rel in b.get("dirs") or []:
                    os.makedirs(os.path.join(out, rel), exist_ok=True)
                for rel, target in (b.get("links") or {}).items():
                    path = os.path.join(out, rel)
                    os.makedirs(os.path.dirname(path), exist_ok=True)
                    os.symlink(target, path)
        except PipeStall as ex:
            for attr in ("out_fd", "err_fd"):
                fd = getattr(proc, attr)
                if fd is not None:
                    try:
                        os.close(fd)
                    except OSError:
                        pass
                    setattr(proc, attr, None)
            self._fail(ex)
        except OSError as ex:  # pragma: no cover
            self._fail(HarnessError("child exit effects failed: %r" % (ex,)))

    def _deliver(self):
        self.pending = False
        self.transitions += 1
        self.ev("deliver", self.in_handler)
        h = self.handler
        if callable(h):
            self.in_handler += 1
            try:
                h(_real_signal.SIGCHLD, None)
            finally:
                self.in_handler -= 1
        self._note_state()

    # ------------------------------------------------------------------ scheduling points
    def _pre(self, kind):
        """Environment phase before a kernel call executes (the call itself does not block)."""
        if self.fatal is not None:
            raise self.fatal
        self.npoints += 1
        if self.npoints > self.horizon:
            self._fail(Horizon("more than %d scheduling points" % self.horizon))
        self._note_state()
        while True:
            opts, costs = [], []
            runners = sorted(self.running(), key=lambda p: p.pid)
            if self.pending:
                opts.append(("deliver",))
                costs.append(0)
            opts.append(("go",))
            costs.append(0)
            for p in runners:
                opts.append(("exit", p.key))
                costs.append(1)
            c = self.chooser.choose(opts, costs, (kind, self.in_handler)) if len(opts) > 1 else 0
            act = opts[c]
            if act[0] == "go":
                return
            if act[0] == "deliver":
                self._deliver()
            else:
                proc = [p for p in runners if p.key == act[1]][0]
                self._do_exit(proc)

    def _blocked(self, kind, lost):
        """Inside a blocking read() of the (empty) self-pipe.  `lost`: a SIGCHLD was already taken by CPython's C-level
        handler *before* the system call was entered (after the last eval-breaker check): the Python-level handler is
        pending, but nothing will interrupt this read() for it.  Only a new signal (EINTR) or a byte in the pipe ends the
        wait."""
        first = True
        while self.pipe_count == 0:
            if self.fatal is not None:
                raise self.fatal
            self.npoints += 1
            if self.npoints > self.horizon:
                self._fail(Horizon("more than %d scheduling points" % self.horizon))
            self._note_state()
            opts, costs = [], []
            runners = sorted(self.running(), key=lambda p: p.pid)
            if self.pending and not lost:
                opts.append(("deliver",))   # the signal interrupts the call (EINTR), the handler runs, the read is retried
                costs.append(0)
            free_exit = first and not (self.pending and not lost)
            for p in runners:
                opts.append(("exit", p.key))
                costs.append(0 if free_exit else 1)
            if self.abort_on is not None and any(p.key == self.abort_on for p in runners) and not (self.pending and not lost):
                # SIGINT arrives while Conductor is blocked waiting for this task: the Python-level handler raises
                # ConductorAbort out of the interrupted read()
                b = self.behaviours[self.abort_on]
                self.abort_on = None
                signame = b.get("abort_signal", "SIGINT")
                signum = getattr(_real_signal, signame)
                self.ev("sigint", kind, signame, sorted((p.pid, p.key) for p in runners if not p.unrelated),
                        sorted(p.key for p in self.procs.values() if p.state != "run" and p.status == 0))
                # what happens next is decided by the disposition the process has for that signal at this moment
                h = _real_signal.getsignal(signum)
                if int(signum) in self.sigmask:
                    # blocked: the signal stays pending in the kernel for as long as the mask holds (here: for good, unless
                    # the code unblocks it - which this model does not follow up)
                    self.ev("signal-blocked", signame)
                elif h == _real_signal.SIG_IGN:
                    self.ev("signal-ignored", signame)
                elif h == _real_signal.SIG_DFL or h is None:
                    self._fail(KilledByDefaultAction("%s arrived while its disposition was the default action" % signame))
                else:
                    h(signum, None)     # Conductor's handler raises ConductorAbort out of the interrupted read()
                continue
            if not opts:
                self.ev("deadlock", kind)
                why = "a SIGCHLD taken just before the call was entered is never handled" if (self.pending and lost) else "nothing pending"
                self._fail(Deadlock("blocked in %s: pipe empty, no running child, %s" % (kind, why)))
            c = self.chooser.choose(opts, costs, (kind + ":blocked", self.in_handler)) if len(opts) > 1 else 0
            act = opts[c]
            if act[0] == "deliver":
                self._deliver()
            else:
                proc = [p for p in runners if p.key == act[1]][0]
                self._do_exit(proc)
                lost = False     # a new signal arrives while blocked: it does interrupt the call
                first = False

    def _post(self):
        """CPython delivers a pending signal right after the C call returns (at the latest)."""
        if self.fatal is not None:
            raise self.fatal
        if self.pending:
            self._deliver()

    # ------------------------------------------------------------------ kernel calls
    def spawn(self, popen, args, executable, shell, cwd, env, out_fd, err_fd, start_new_session):
        pid = self.next_pid
        self.next_pid += 1
        p = VProc(pid)
        p.env = dict(env) if env is not None else dict(os.environ)
        p.cwd = os.fspath(cwd) if cwd is not None else os.getcwd()
        p.argv = list(args) if not isinstance(args, (str, bytes)) else [args]
        p.popen_kw = {"shell": shell, "executable": executable, "start_new_session": start_new_session}
        p.name = p.env.get("COND_NAME")
        p.key = self.task_key(p.cwd, p.name)
        p.out_fd, p.err_fd = out_fd, err_fd
        p.behaviour = self.behaviours.get(p.key, {})
        self.procs[pid] = p
        out = p.env.get("COND_OUT")
        pre_listing = None
        if out and os.path.isdir(out):
            pre_listing = sorted(os.listdir(out))
            if not p.behaviour.get("quiet"):
                with open(os.path.join(out, "PARTIAL"), "w") as f:
                    f.write(p.key + "\n")
        self.max_running = max(self.max_running, len([q for q in self.running() if not q.unrelated]))
        self.ev("spawn", pid, p.key, {
            "slot": p.env.get("COND_SLOT"), "out": out, "deps": p.env.get("COND_DEPS"),
            "name": p.name, "cwd": p.cwd, "argv": p.argv, "kw": p.popen_kw,
            "out_listing": pre_listing,
            "running": sorted(q.key for q in self.running() if not q.unrelated),
        })
        self._note_state()
        return pid

    def task_key(self, cwd, name):
        if self.project_root is not None:
            rel = os.path.relpath(cwd, self.project_root)
            rel = "" if rel == "." else rel
        else:
            rel = cwd
        return "//%s:%s" % (rel, name)

    def after_spawn_point(self):
        self._pre("spawned")
        self._post()

    def waitpid(self, pid, options, who="handler"):
        self._pre("waitpid:%s" % who)
        try:
            if not (options & os.WNOHANG):
                self._fail(HarnessError("blocking waitpid not modelled"))
            if pid == -1:
                zs = sorted(self.zombies(), key=lambda p: p.pid)
                if zs:
                    c = 0
                    if len(zs) > 1:
                        c = self.chooser.choose([("reap", z.key) for z in zs], [0] * len(zs), ("reap", self.in_handler))
                    z = zs[c]
                    z.state = "reaped"
                    self.ev("reap", z.pid, z.key, who)
                    return (z.pid, z.status)
                if self.running():
                    return (0, 0)
                raise ChildProcessError(errno.ECHILD, "No child processes")
            p = self.procs.get(pid)
            if p is None or p.state == "reaped":
                raise ChildProcessError(errno.ECHILD, "No child processes")
            if p.state == "zombie":
                p.state = "reaped"
                self.ev("reap", p.pid, p.key, who)
                return (p.pid, p.status)
            return (0, 0)
        finally:
            self._post()

    def getpgid(self, pid):
        self._pre("getpgid")
        try:
            p = self.procs.get(pid)
            if p is None or p.state == "reaped":
                raise ProcessLookupError(errno.ESRCH, "No such process")
            return p.pgid
        finally:
            self._post()

    def killpg(self, pgid, sig):
        self._pre("killpg")
        try:
            members = [p for p in self.procs.values() if p.pgid == pgid and p.state in ("run", "zombie")]
            self.killpg_calls.append((pgid, sig))
            self.ev("killpg", pgid, sig, sorted(p.key for p in members if p.state == "run"))
            if not members:
                raise ProcessLookupError(errno.ESRCH, "No such process")
            if sig in (_real_signal.SIGTERM, _real_signal.SIGKILL):
                for p in members:
                    if p.state == "run" and not (p.behaviour or {}).get("ignores_sigterm"):
                        self._do_exit(p, st_signal(sig), why="killed")
        finally:
            self._post()

    def kill(self, pid, sig):
        """kill(2) with a positive pid: that ONE process, not its group."""
        if pid <= 0:
            return self.killpg(-pid if pid < 0 else 0, sig)
        self._pre("kill")
        try:
            p = self.procs.get(pid)
            self.ev("kill", pid, sig, p.key if p is not None else None)
            if p is None or p.state == "reaped":
                raise ProcessLookupError(errno.ESRCH, "No such process")
            if sig in (_real_signal.SIGTERM, _real_signal.SIGKILL) and p.state == "run" and not (p.behaviour or {}).get("ignores_sigterm"):
                self._do_exit(p, st_signal(sig), why="killed")
        finally:
            self._post()

    def pipe(self):
        r, w = os.pipe()
        self.pipe_r, self.pipe_w = r, w
        self.pipe_count = 0
        return r, w

    def read(self, fd, n):
        if fd != self.pipe_r:
            return os.read(fd, n)
        # phase A: about to enter the system call (an exit here that is not handled before the call is the lost-wakeup window)
        self._pre("read")
        lost = self.pending
        # phase B: inside the (blocking) call
        if self.pipe_count == 0:
            self._blocked("read", lost)
        try:
            if self.pipe_count <= 0:
                self._fail(HarnessError("read proceeds with empty pipe"))
            data = os.read(fd, min(n, self.pipe_count))
            self.pipe_count -= len(data)
            self.ev("piperead", len(data))
            return data
        finally:
            self._post()

    def write(self, fd, data):
        if fd != self.pipe_w:
            return os.write(fd, data)
        self._pre("write")
        try:
            n = os.write(fd, data)
            self.pipe_count += n
            return n
        finally:
            self._post()

    def close(self, fd):
        if fd == self.pipe_r:
            self.pipe_r = None
        if fd == self.pipe_w:
            self.pipe_w = None
        return os.close(fd)

    def set_wakeup_fd(self, fd, warn_on_full_buffer=True):
        if fd != -1 and os.get_blocking(fd):
            raise ValueError("the fd %d must be in non-blocking mode" % fd)
        old = self.wakeup_fd
        self.wakeup_fd = fd
        self.ev("set_wakeup_fd", "pipe" if fd == self.pipe_w and fd != -1 else fd)
        return old

    def signal(self, signum, handler):
        if signum != _real_signal.SIGCHLD:
            return _real_signal.signal(signum, handler)
        old = self.handler
        self.handler = handler
        self.ev("sigaction", "handler" if callable(handler) else str(handler))
        return old

    def pthread_sigmask(self, how, mask):
        """The signal mask of Conductor's main thread, kept virtual (the harness process's real mask is never touched)."""
        old = set(self.sigmask)
        mask = {int(x) for x in mask}
        if how == _real_signal.SIG_BLOCK:
            self.sigmask |= mask
        elif how == _real_signal.SIG_UNBLOCK:
            self.sigmask -= mask
        elif how == _real_signal.SIG_SETMASK:
            self.sigmask = set(mask)
        else:
            raise OSError(errno.EINVAL, "Invalid argument")
        self.ev("sigmask", sorted(self.sigmask))
        return {_real_signal.Signals(x) for x in old}

    def release_lingering(self):
        """The background grandchildren that kept a task's stdout open write their last bytes and exit."""
        n = 0
        for p in self.procs.values():
            b = p.behaviour or {}
            if b.get("linger") is not None and p.out_fd is not None and p.state != "run":
                fd, p.out_fd = p.out_fd, None
                try:
                    _write_all(fd, b["linger"])
                finally:
                    os.close(fd)
                n += 1
        return n

    # ------------------------------------------------------------------ teardown
    def teardown(self):
        """Release fds held by virtual children that never exited (aborted runs)."""
        for p in self.procs.values():
            for attr in ("out_fd", "err_fd"):
                fd = getattr(p, attr)
                if fd is not None:
                    try:
                        os.close(fd)
                    except OSError:
                        pass
                    setattr(p, attr, None)
        for fd in (self.pipe_r, self.pipe_w):
            if fd is not None:
                try:
                    os.close(fd)
                except OSError:
                    pass
        self.pipe_r = self.pipe_w = None


# ---------------------------------------------------------------------- facades
class Facade:
    """Module-like object: listed names come from `overrides`, everything else from the real module."""

    def __init__(self, real, overrides):
        self.__dict__["_real"] = real
        self.__dict__["_over"] = overrides

    def __getattr__(self, name):
        over = self.__dict__["_over"]
        if name in over:
            return over[name]
        return getattr(self.__dict__["_real"], name)


CURRENT = {"vk": None}


def _cur():
    vk = CURRENT["vk"]
    if vk is None:
        raise HarnessError("virtual kernel call outside a virtual run")
    return vk


class FakePopen(_real_subprocess.Popen):
    """Real Popen; only the fork/exec step and the waitpid used by _internal_poll are virtual."""

    def _execute_child(self, args, executable, preexec_fn, close_fds, pass_fds, cwd, env,
                       startupinfo, creationflags, shell, p2cread, p2cwrite, c2pread, c2pwrite,
                       errread, errwrite, restore_signals, gid, gids, uid, umask,
                       start_new_session, process_group):
        vk = _cur()
        name = (env or {}).get("COND_NAME")
        key = vk.task_key(os.fspath(cwd) if cwd is not None else os.getcwd(), name)
        beh = vk.behaviours.get(key, {})
        if beh.get("launch_fail"):
            vk.ev("launchfail", key)
            raise OSError(errno.EAGAIN, os.strerror(errno.EAGAIN))
        out_fd = os.dup(c2pwrite) if c2pwrite != -1 else None
        err_fd = os.dup(errwrite) if errwrite != -1 else None
        self._close_pipe_fds(p2cread, p2cwrite, c2pread, c2pwrite, errread, errwrite)
        self.pid = vk.spawn(self, args, executable, shell, cwd, env, out_fd, err_fd, start_new_session)
        self._child_created = True
        if beh.get("exec_fail"):
            # The fork succeeded but the child could not chdir/exec: it reports the error through the error pipe and exits
            # with 255.  Popen.__init__ then reaps it with waitpid(pid) - unless a SIGCHLD handler that uses waitpid(-1) got
            # there first (the handler runs at the next bytecode boundary) - and raises the child's error in the parent.
            proc = vk.procs[self.pid]
            proc.no_effects = True
            vk.ev("execfail", self.pid, key)
            vk._do_exit(proc, st_exit(255), why="exit")
            try:
                pid, sts = vk.waitpid(self.pid, os.WNOHANG, who="popen-init")
                if pid == self.pid:
                    self._handle_exitstatus(sts)
            except ChildProcessError:
                pass
            raise FileNotFoundError(errno.ENOENT, os.strerror(errno.ENOENT), os.fspath(cwd) if cwd is not None else None)
        # The child exists; Popen.__init__ has not returned yet.
        vk.after_spawn_point()


def _vk_waitpid_for_popen(pid, options):
    vk = CURRENT["vk"]
    if vk is None:  # a finalizer running after the virtual run ended: the child is long gone
        raise ChildProcessError(errno.ECHILD, "No child processes")
    return vk.waitpid(pid, options, who="popen")


_real_ip = _real_subprocess.Popen._internal_poll
FakePopen._internal_poll = types.FunctionType(
    _real_ip.__code__, _real_ip.__globals__, "_internal_poll",
    (None, _vk_waitpid_for_popen, os.WNOHANG, errno.ECHILD),
)


def make_os_facade():
    return Facade(os, {
        "waitpid": lambda pid, options: _cur().waitpid(pid, options, who="handler"),
        "getpgid": lambda pid: _cur().getpgid(pid),
        "killpg": lambda pgid, sig: _cur().killpg(pgid, sig),
        "kill": lambda pid, sig: _cur().kill(pid, sig),
        "pipe": lambda: _cur().pipe(),
        "read": lambda fd, n: _cur().read(fd, n),
        "write": lambda fd, data: _cur().write(fd, data),
        "close": lambda fd: _cur().close(fd),
    })


def make_signal_facade():
    return Facade(_real_signal, {"signal": lambda signum, handler: _cur().signal(signum, handler),
                                 "set_wakeup_fd": lambda fd, **kw: _cur().set_wakeup_fd(fd, **kw),
                                 "pthread_sigmask": lambda how, mask: _cur().pthread_sigmask(how, mask)})


def make_subprocess_facade():
    return Facade(_real_subprocess, {"Popen": FakePopen})
