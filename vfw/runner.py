"""
Check runner: `python -m vfw.runner <ID> --tier quick|thorough [--replay FILE] [--jobs N]`.

A check module (vfw/checks/<id>.py) provides
  ID, LEVEL, RULE, ASSUMPTIONS
  items(tier)                -> list of JSON-able work items (the finite, seed-independent work list)
  run_item(item, tier)       -> dict: evals, states (set of str) / n_states, transitions, sigs (set of str),
                                violations [ {key, what, artefact} ], sample, counters {name: int}, caps [str]
  replay(artefact)           -> list of (key, what) observed when re-running exactly that artefact
  finish(agg, tier)          -> optional: extra coverage keys / extra violations computed on the aggregate
Exit codes: 0 held; 1 violation (VIOLATION lines printed); 2 harness error.
"""
import argparse
import importlib
import json
import multiprocessing
import os
import sys
import time
import traceback

ROOT = os.path.dirname(os.path.dirname(os.path.abspath(__file__)))
KNOWN = os.path.join(ROOT, "known_findings.json")


def load_known():
    if not os.path.exists(KNOWN):
        return []
    with open(KNOWN) as f:
        return json.load(f)["findings"]


_worker_mod = {}


def _init_worker(mod_name):
    # N.B. an exception escaping a Pool initializer makes the pool respawn workers forever
    os.environ.setdefault("PYTHONHASHSEED", "0")
    try:
        mod = importlib.import_module(mod_name)
        _worker_mod["mod"] = mod
        if hasattr(mod, "warmup"):
            mod.warmup()
    except BaseException as ex:
        _worker_mod["init_error"] = "%s: %s\n%s" % (type(ex).__name__, ex, traceback.format_exc())
        return
    import gc
    gc.collect()
    gc.freeze()  # per-execution gc.collect() then only walks objects created by that execution


def _run_chunk(args):
    chunk, tier = args
    if "init_error" in _worker_mod:
        return [{"harness_error": "worker initialisation failed: " + _worker_mod["init_error"], "bad_item": None}]
    mod = _worker_mod["mod"]
    out = []
    for item in chunk:
        try:
            r = mod.run_item(item, tier)
            r.setdefault("item", None)
            out.append(r)
        except BaseException as ex:  # harness fault
            out.append({"harness_error": "%s: %s\n%s" % (type(ex).__name__, ex, traceback.format_exc()),
                        "bad_item": item})
    # sets -> lists for pickling compactness
    return out


def aggregate(results):
    agg = {"evals": 0, "transitions": 0, "states": set(), "sigs": set(), "violations": [], "samples": [],
           "counters": {}, "caps": [], "harness_errors": [], "traces_validated": 0, "n_items": 0}
    for r in results:
        agg["n_items"] += 1
        if "harness_error" in r:
            agg["harness_errors"].append(r)
            continue
        agg["evals"] += r.get("evals", 0)
        agg["transitions"] += r.get("transitions", 0)
        agg["traces_validated"] += r.get("traces_validated", 0)
        agg["states"].update(r.get("states", ()))
        agg["sigs"].update(r.get("sigs", ()))
        agg["violations"].extend(r.get("violations", ()))
        if r.get("sample") is not None and len(agg["samples"]) < 200:
            agg["samples"].append(r["sample"])
        for k, v in (r.get("counters") or {}).items():
            agg["counters"][k] = agg["counters"].get(k, 0) + v
        agg["caps"].extend(r.get("caps", ()))
    return agg


def main(argv=None):
    ap = argparse.ArgumentParser()
    ap.add_argument("check")
    ap.add_argument("--tier", default=os.environ.get("VERIF_TIER", "quick"), choices=["quick", "thorough"])
    ap.add_argument("--replay")
    ap.add_argument("--jobs", type=int, default=int(os.environ.get("VERIF_JOBS", "0")) or min(16, os.cpu_count() or 1))
    ap.add_argument("--no-evidence", action="store_true")
    ap.add_argument("--limit", type=int, default=0, help="debug: only the first N items")
    args = ap.parse_args(argv)
    seed = int(os.environ.get("VERIF_SEED", "0") or 0)
    cid = args.check.upper()
    mod_name = "vfw.checks.%s" % cid.lower()
    mod = importlib.import_module(mod_name)

    if args.replay:
        return do_replay(mod, cid, args.replay)

    t0 = time.time()
    try:
        items = list(mod.items(args.tier))
    except Exception:
        print("HARNESS-ERROR property=%s building work list:\n%s" % (cid, traceback.format_exc()))
        return 2
    if args.limit:
        items = items[:args.limit]
    # VERIF_SEED only rotates the partition of the (fixed) work list over workers
    n = len(items)
    if n and seed:
        k = seed % n
        items = items[k:] + items[:k]
    jobs = max(1, min(args.jobs, n or 1))
    chunk_size = max(1, min(getattr(mod, "CHUNK", 8), (n + jobs * 4 - 1) // (jobs * 4) or 1))
    chunks = [(items[i:i + chunk_size], args.tier) for i in range(0, n, chunk_size)]
    results = []
    if jobs == 1:
        _init_worker(mod_name)
        for c in chunks:
            results.extend(_run_chunk(c))
    else:
        ctx = multiprocessing.get_context("fork")
        deadline = time.time() + float(os.environ.get("VERIF_DEADLINE_S", "1500" if args.tier == "quick" else "21600"))
        pool = ctx.Pool(jobs, initializer=_init_worker, initargs=(mod_name,), maxtasksperchild=getattr(mod, "MAXTASKS", None))
        try:
            pending = [(i, pool.apply_async(_run_chunk, (c,))) for i, c in enumerate(chunks)]
            while pending:
                still = []
                for i, ar in pending:
                    if ar.ready():
                        results.extend(ar.get())
                    else:
                        still.append((i, ar))
                pending = still
                if pending:
                    if time.time() > deadline:
                        stuck = [chunks[i][0] for i, _ in pending[:3]]
                        print("HARNESS-ERROR property=%s %d work chunks did not finish before the deadline (a hang in the code under test "
                              "or in the harness); first pending items: %s" % (cid, len(pending), json.dumps(stuck, default=str)[:1500]))
                        pool.terminate()
                        return 2
                    time.sleep(0.05)
        finally:
            pool.terminate()
            pool.join()
    agg = aggregate(results)
    extra = {}
    if hasattr(mod, "finish"):
        try:
            extra = mod.finish(agg, args.tier) or {}
        except Exception:
            agg["harness_errors"].append({"harness_error": traceback.format_exc()})
    wall = time.time() - t0

    if agg["harness_errors"]:
        for h in agg["harness_errors"][:5]:
            print("HARNESS-ERROR property=%s %s" % (cid, h.get("harness_error")))
            if h.get("bad_item") is not None:
                print("  item: %s" % json.dumps(h["bad_item"], default=str)[:2000])
        if not agg["violations"]:
            return 2
        # violations found by the healthy items are still reported below (exit 1); no evidence is written
        args.no_evidence = True

    # ---- violations: dedupe by key, consult known findings, confirm by replay, write artefacts
    known = [k for k in load_known() if k["property"] == cid]
    by_key = {}
    for v in agg["violations"]:
        by_key.setdefault(v["key"], []).append(v)
    n_viol = 0
    unconfirmed = []
    printed_known = set()
    rc = 0
    os.makedirs(os.path.join(ROOT, "replays"), exist_ok=True)
    for key in sorted(by_key):
        vs = by_key[key]
        v = min(vs, key=lambda x: len(json.dumps(x.get("artefact"), default=str)))
        kf = [k for k in known if k.get("status") == "known" and k["key"] == key]
        if kf:
            if key not in printed_known:
                print("KNOWN-FINDING: property=%s %s" % (cid, kf[0]["what"]))
                printed_known.add(key)
            continue
        n_viol += 1
        art = {"property": cid, "tier": args.tier, "key": key, "what": v["what"], "count": len(vs),
               "artefact": v.get("artefact")}
        path = os.path.join(ROOT, "replays", "%s-%s.json" % (cid, safe(key)))
        with open(path, "w") as f:
            json.dump(art, f, indent=1, default=str)
        # confirm twice from this process before raising the alarm
        confirmed = True
        if hasattr(mod, "replay") and v.get("artefact") is not None and not getattr(mod, "NO_CONFIRM", False):
            try:
                for _ in range(2):
                    got = mod.replay(v["artefact"])
                    if key not in [g[0] for g in got]:
                        confirmed = False
            except Exception:
                print("HARNESS-ERROR property=%s replay of %s failed:\n%s" % (cid, path, traceback.format_exc()))
                return 2
        if not confirmed:
            # not deterministic: never reported as a violation; remembered in case nothing else is confirmed
            unconfirmed.append((key, path))
            n_viol -= 1
            continue
        print("VIOLATION property=%s replay=%s" % (cid, path))
        print("  %s  [%d occurrences] %s" % (key, len(vs), v["what"]))
        rc = 1
    for key, path in unconfirmed:
        print("HARNESS-ERROR property=%s observation %s did not reproduce on replay (%s): not reported as a violation" % (cid, key, path))
    if unconfirmed and rc == 0:
        return 2
    # known findings that no longer fire are reported (not an error)
    for k in known:
        if k.get("status") == "known" and k["key"] not in by_key:
            print("note: known finding %s did not fire on this run" % k["key"])

    if not args.no_evidence:
        write_evidence(mod, cid, args.tier, seed, agg, extra, wall, n_viol)
    print("%s %s: items=%d evaluations=%d states=%d transitions=%d distinct=%d violations=%d wall=%.1fs"
          % (cid, args.tier, agg["n_items"], agg["evals"], len(agg["states"]), agg["transitions"],
             len(agg["sigs"]), n_viol, wall))
    return rc


def safe(key):
    return "".join(c if c.isalnum() or c in "-_." else "_" for c in key)[:80]


def write_evidence(mod, cid, tier, seed, agg, extra, wall, n_viol):
    cov = {
        "evaluations": agg["evals"],
        "distinct_nontrivial": len(agg["sigs"]),
        "rule": mod.RULE,
        "samples": agg["samples"][:5] if agg["samples"] else [],
        "exhaustive": not agg["caps"],
        "work_items": agg["n_items"],
    }
    if mod.LEVEL == "model_checking":
        cov["states"] = len(agg["states"])
        cov["transitions"] = agg["transitions"]
        cov["traces_validated_against_impl"] = agg["traces_validated"]
    if agg["caps"]:
        cov["caps_hit"] = sorted(set(agg["caps"]))[:20]
    for k, v in agg["counters"].items():
        cov[k] = v
    cov.update(extra)
    ev = {
        "property_id": cid, "tier": tier, "seed": seed, "level": mod.LEVEL, "coverage": cov,
        "assumptions": list(getattr(mod, "ASSUMPTIONS", [])), "wall_s": round(wall, 2), "violations": n_viol,
    }
    os.makedirs(os.path.join(ROOT, "evidence"), exist_ok=True)
    with open(os.path.join(ROOT, "evidence", "%s.json" % cid), "w") as f:
        json.dump(ev, f, indent=1, default=str)


def do_replay(mod, cid, path):
    with open(path) as f:
        art = json.load(f)
    _init_worker(mod.__name__)
    a = mod.replay(art["artefact"])
    b = mod.replay(art["artefact"])
    if sorted(a) != sorted(b):
        print("HARNESS-ERROR property=%s replay is not deterministic: %r vs %r" % (cid, a, b))
        return 2
    if not a:
        print("replay %s: property holds on this input (no violation observed)" % path)
        return 0
    for key, what in a:
        print("VIOLATION property=%s replay=%s" % (cid, path))
        print("  %s %s" % (key, what))
    return 1


if __name__ == "__main__":
    sys.exit(main())
