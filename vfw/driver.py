"""
In-process driver: builds a project on tmpfs, installs the seams, calls conductor.__main__.main() with an
argv and returns everything observable.  Seams are monkey-patched module globals (no hooks in /repo).
"""
import contextlib
import gc
import io
import os
import re
import shutil
import signal
import sqlite3
import subprocess
import sys
import threading
import types

from . import vk as vkmod

# The code under test: /repo by default (VFW_REPO lets background sweeps and seed tests point at a scratch worktree)
REPO = os.environ.get("VFW_REPO", "/repo").rstrip("/")
REPO_SRC = REPO + "/src"
if REPO_SRC not in sys.path:
    sys.path.insert(0, REPO_SRC)

ANSI = re.compile(r"\x1b\[[0-9;]*m")

_scratch = {"root": None}


def scratch_root():
    if _scratch["root"] is None or _scratch.get("pid") != os.getpid():
        base = "/dev/shm" if os.path.isdir("/dev/shm") else "/tmp"
        root = os.path.join(base, "vfw-%d" % os.getpid())
        shutil.rmtree(root, ignore_errors=True)
        os.makedirs(root)
        _scratch["root"] = root
        _scratch["pid"] = os.getpid()
        import atexit
        atexit.register(shutil.rmtree, root, True)
    return _scratch["root"]


def cleanup_scratch():
    if _scratch["root"] and _scratch.get("pid") == os.getpid():
        shutil.rmtree(_scratch["root"], ignore_errors=True)
        _scratch["root"] = None


# ---------------------------------------------------------------------------- project building
def write_tree(root, files):
    """files: {relpath: str|bytes|None(dir)|('link', target)}"""
    for rel, content in files.items():
        path = os.path.join(root, rel)
        if content is None:
            os.makedirs(path, exist_ok=True)
            continue
        os.makedirs(os.path.dirname(path), exist_ok=True)
        if isinstance(content, tuple) and content[0] == "link":
            os.symlink(content[1], path)
        elif isinstance(content, bytes):
            with open(path, "wb") as f:
                f.write(content)
        else:
            with open(path, "w", encoding="utf-8", newline="") as f:
                f.write(content)


def fresh_project(files, name="proj", config="", index_rows=None, pre_tree=None, symlink_out=False):
    root = os.path.join(scratch_root(), name)
    shutil.rmtree(root, ignore_errors=True)
    os.makedirs(root)
    if symlink_out:
        # cond-out is a symbolic link to scratch storage elsewhere (at another depth)
        real = os.path.join(scratch_root(), name + "-realout")
        shutil.rmtree(real, ignore_errors=True)
        os.makedirs(os.path.join(real, "deeper", "out"))
        os.symlink(os.path.join(real, "deeper", "out"), os.path.join(root, "cond-out"))
    if config is not None:
        with open(os.path.join(root, "cond_config.toml"), "w") as f:
            f.write(config)
    write_tree(root, files)
    if pre_tree:
        write_tree(root, pre_tree)
    if index_rows is not None:
        make_index(os.path.join(root, "cond-out", "version_index.sqlite"), index_rows)
    return root


CREATE_TABLE = """CREATE TABLE version_index (
    task_identifier TEXT NOT NULL, timestamp INTEGER NOT NULL, git_commit_hash TEXT,
    has_uncommitted_changes INTEGER NOT NULL, PRIMARY KEY (task_identifier, timestamp))"""


def make_index(path, rows):
    os.makedirs(os.path.dirname(path), exist_ok=True)
    conn = sqlite3.connect(path)
    conn.execute("PRAGMA user_version = 2")
    conn.execute(CREATE_TABLE)
    conn.executemany("INSERT INTO version_index VALUES (?,?,?,?)", rows)
    conn.commit()
    conn.close()


def read_index(path):
    """Committed rows as seen by a fresh connection (ordinary recovery)."""
    if not os.path.exists(path):
        return None
    conn = sqlite3.connect(path)
    try:
        try:
            return sorted(conn.execute(
                "SELECT task_identifier, timestamp, git_commit_hash, has_uncommitted_changes FROM version_index"
            ).fetchall(), key=lambda r: (r[0], r[1]))
        except sqlite3.OperationalError as ex:
            if "no such table" in str(ex):  # killed while the index was being created: no rows
                return []
            if "no such column" in str(ex):  # format 1 (Conductor <= 0.4): no commit / dirty columns
                return sorted(((r[0], r[1], None, 0) for r in conn.execute("SELECT task_identifier, timestamp FROM version_index").fetchall()),
                              key=lambda r: (r[0], r[1]))
            raise
    finally:
        conn.close()


# ---------------------------------------------------------------------------- streams
class _Buf:
    def __init__(self, owner):
        self.owner = owner

    def write(self, data):
        self.owner._log("b", bytes(data))
        return len(data)

    def flush(self):
        pass


class LogStream:
    """stdout/stderr replacement: records every write in order, optionally in a shared event log."""

    def __init__(self, name, sink=None):
        self.name = name
        self.parts = []
        self.bparts = []   # bytes written through .buffer (forwarded task output)
        self.sink = sink
        self.buffer = _Buf(self)
        self.encoding = "utf-8"
        self._lock = threading.Lock()
        self._line = ""

    def _log(self, kind, data):
        with self._lock:
            self.parts.append(data if kind == "b" else data.encode("utf-8"))
            if kind == "b":
                self.bparts.append(data)
            if kind == "t" and self.sink is not None:
                self._line += data
                while "\n" in self._line:
                    line, self._line = self._line.split("\n", 1)
                    line = ANSI.sub("", line)
                    if line.strip():
                        self.sink(self.name, line)

    def write(self, s):
        self._log("t", s)
        return len(s)

    def flush(self):
        pass

    def isatty(self):
        return False

    def fileno(self):
        raise io.UnsupportedOperation("fileno")

    def getvalue(self):
        with self._lock:
            return b"".join(self.parts)

    def text(self):
        return ANSI.sub("", self.getvalue().decode("utf-8", "replace"))


# ---------------------------------------------------------------------------- clock
class Clock:
    def __init__(self, now=1_700_000_000.0):
        self.now = float(now)

    def time(self):
        return self.now


# ---------------------------------------------------------------------------- result
class Result:
    def __init__(self):
        self.exit = None
        self.exc = None
        self.exc_tb = None
        self.stdout = b""
        self.stderr = b""
        self.out_text = ""
        self.err_text = ""
        self.vk = None
        self.unraisable = []
        self.events = []
        self.timed_out = False
        self.hard_exit = None      # (status, {relative path under cond-out: bytes on disk}) if the command called os._exit()

    def lines(self):
        return [l for l in self.out_text.splitlines() if l.strip()]


_modules = {}


def mods():
    """Import conductor lazily and once; return the modules that carry seams."""
    if not _modules:
        import conductor.__main__ as cmain
        import conductor.execution.ops.run_task_executable as rte
        import conductor.utils.sigchld as sigchld
        import conductor.execution.executor as executor
        import conductor.utils.git as cgit
        import conductor.execution.version_index as vindex
        import conductor.cli.archive as carchive
        _modules.update(cmain=cmain, rte=rte, sigchld=sigchld, executor=executor, cgit=cgit,
                        vindex=vindex, carchive=carchive)
    return _modules


# ---------------------------------------------------------------------------- seams, bound by identity
# A seam replaces a standard-library object *as the module under test sees it*.  The module may hold it under any name
# (`import subprocess`, `from subprocess import run as run_process`, `import datetime as dt`, `from datetime import datetime`):
# every module-level binding whose value IS one of the real objects is replaced by the corresponding fake.
import datetime as _datetime_mod
import time as _time_mod
_REAL = {
    "subprocess": subprocess, "subprocess.run": subprocess.run, "subprocess.Popen": subprocess.Popen,
    "os": os, "signal": signal, "time": _time_mod, "time.time": _time_mod.time,
    "datetime": _datetime_mod, "datetime.datetime": _datetime_mod.datetime,
}
for _n in ("waitpid", "getpgid", "killpg", "kill", "pipe", "read", "write", "close"):
    _REAL["os." + _n] = getattr(os, _n)
for _n in ("signal", "set_wakeup_fd", "pthread_sigmask"):
    _REAL["signal." + _n] = getattr(signal, _n)


def bind(module, repl, required=True, what="seam"):
    """repl: list of (real object, fake).  Returns patch triples for every binding in `module` that is one of the real objects."""
    out = []
    for name, val in list(vars(module).items()):
        for real, fake in repl:
            if val is real:
                out.append((module, name, fake))
                break
    if required and not out:
        raise vkmod.HarnessError("%s: %s does not refer to any of the objects the seam replaces" % (what, module.__name__))
    return out


def facade_repl(prefix, facade):
    """(real, fake) pairs for a module facade: the module object itself and each overridden function."""
    out = [(_REAL[prefix], facade)]
    for n in facade.__dict__["_over"]:
        key = "%s.%s" % (prefix, n)
        if key in _REAL:
            out.append((_REAL[key], getattr(facade, n)))
    return out


def git_seam(git):
    """Patch triples that make conductor.utils.git talk to `git` (an object with .run(argv, **kw))."""
    return bind(mods()["cgit"], facade_repl("subprocess", vkmod.Facade(subprocess, {"run": git.run})), what="git seam")


@contextlib.contextmanager
def patched(pairs):
    saved = []
    try:
        for obj, name, value in pairs:
            saved.append((obj, name, getattr(obj, name)))
            setattr(obj, name, value)
        yield
    finally:
        for obj, name, value in reversed(saved):
            setattr(obj, name, value)


class HarnessEscape(vkmod.HarnessError):
    pass


_REAL_PROCESS_API = {"waitpid": os.waitpid, "killpg": os.killpg, "kill": os.kill, "fork": os.fork, "_fork_exec": subprocess._fork_exec}


@contextlib.contextmanager
def unguarded():
    """Harness-side code that legitimately needs real processes during a virtual run (fake-git fallback)."""
    saved = {k: getattr(subprocess if k == "_fork_exec" else os, k) for k in _REAL_PROCESS_API}
    try:
        for k, v in _REAL_PROCESS_API.items():
            setattr(subprocess if k == "_fork_exec" else os, k, v)
        yield
    finally:
        for k, v in saved.items():
            setattr(subprocess if k == "_fork_exec" else os, k, v)


def _escape(name):
    def f(*a, **k):
        raise HarnessEscape("real %s reached during a virtual run" % name)
    return f


class HardExit(BaseException):
    """The code under test called os._exit(): the process ends on the spot - no finalizers, no joining of threads, nothing that is
    still in a userspace buffer reaches the disk."""

    def __init__(self, status):
        super().__init__(status)
        self.status = status


class HarnessTimeout(BaseException):
    """The in-process command did not come back in time (a hang of the code under test)."""


_alarm_state = {"res": None, "vk": None, "stage": 0}


def _on_alarm(sig, frame):
    """Stage 1: the code under test is blocked waiting for a virtual child that nobody terminated (e.g. a finalizer
    joining a tee thread): let the children die so that it can continue, and remember that it hung.  Stage 2: raise."""
    st = _alarm_state
    if st["stage"] == 0:
        st["stage"] = 1
        if st["res"] is not None:
            st["res"].timed_out = True
        vk = st["vk"]
        if vk is not None:
            for p in vk.procs.values():
                for attr in ("out_fd", "err_fd"):
                    fd = getattr(p, attr)
                    if fd is not None:
                        try:
                            os.close(fd)
                        except OSError:
                            pass
                        setattr(p, attr, None)
        signal.setitimer(signal.ITIMER_REAL, st.get("grace", 20))
        return
    raise HarnessTimeout()


_fn_caches = {"n": -1, "objs": []}


def clear_function_caches():
    """A real `cond` is a fresh process; here one process runs thousands of commands: memoised functions (functools.cache /
    lru_cache) of the code under test must not carry results from one command into the next."""
    mods_ = [m for n, m in list(sys.modules.items()) if n == "conductor" or n.startswith("conductor.")]
    if len(mods_) != _fn_caches["n"]:
        objs = []
        for m in mods_:
            for v in list(vars(m).values()):
                if callable(getattr(v, "cache_clear", None)):
                    objs.append(v)
                elif isinstance(v, type):
                    for w in list(vars(v).values()):
                        w = getattr(w, "__func__", w)
                        if callable(getattr(w, "cache_clear", None)):
                            objs.append(w)
        _fn_caches.update(n=len(mods_), objs=objs)
    for o in _fn_caches["objs"]:
        o.cache_clear()


def _find_root(d):
    d = os.path.abspath(d)
    while d != os.path.dirname(d):
        if os.path.exists(os.path.join(d, "cond_config.toml")):
            return d
        d = os.path.dirname(d)
    return d


def run_cli(argv, cwd, *, vk=None, git=None, clock=None, env=None, tracer=None, real_processes=False, timeout=None):
    """
    Run `cond <argv>` in-process with cwd.  vk: a vkmod.VK (virtual processes) or None (no process seam:
    only for commands that spawn nothing or when real_processes=True).  git: object with .run(argv, **kw)
    (fake git) or None for the real one.  clock: Clock.  Returns Result.
    """
    m = mods()
    clear_function_caches()
    res = Result()
    res.vk = vk

    def sink(stream, line):
        ev = ("out" if stream == "stdout" else "err", line)
        res.events.append(ev)
        if vk is not None:
            vk.log.append(ev)

    out, err = LogStream("stdout", sink), LogStream("stderr", sink)
    pairs = []
    if vk is not None:
        osf = vkmod.make_os_facade()
        os_repl = facade_repl("os", osf)
        pairs += bind(m["rte"], facade_repl("subprocess", vkmod.make_subprocess_facade()) + os_repl, what="process seam")
        pairs += bind(m["sigchld"], os_repl + facade_repl("signal", vkmod.make_signal_facade()), what="SIGCHLD seam")
        pairs += bind(m["executor"], os_repl, what="process-group seam")
        if not real_processes:
            pairs += [
                (os, "waitpid", _escape("os.waitpid")),
                (os, "killpg", _escape("os.killpg")),
                (os, "kill", _escape("os.kill")),
                (os, "fork", _escape("os.fork")),
                (subprocess, "_fork_exec", _escape("fork_exec")),
            ]
    def hard_exit(status=0):
        snap = {}
        co = os.path.join(cwd if os.path.isdir(os.path.join(cwd, "cond-out")) else _find_root(cwd), "cond-out")
        for dp, _, fs in os.walk(co):
            for f in fs:
                p_ = os.path.join(dp, f)
                if not f.endswith(".sqlite"):
                    try:
                        with open(p_, "rb") as fh:
                            snap[os.path.relpath(p_, co)] = fh.read()
                    except OSError:
                        pass
        res.hard_exit = (status, snap)
        raise HardExit(status)

    pairs.append((os, "_exit", hard_exit))
    if git is not None:
        pairs += git_seam(git)
    if clock is not None:
        tf = vkmod.Facade(__import__("time"), {"time": clock.time})
        pairs += bind(m["vindex"], facade_repl("time", tf), what="clock seam") + bind(m["executor"], facade_repl("time", tf), what="clock seam")
        import datetime as _dt

        class _FixedDateTime(_dt.datetime):
            @classmethod
            def now(cls, tz=None):
                return _dt.datetime.utcfromtimestamp(clock.now)

        pairs += bind(m["carchive"], facade_repl("datetime", vkmod.Facade(_dt, {"datetime": _FixedDateTime})), what="archive clock seam")

    old_cwd = os.getcwd()
    old_argv = sys.argv
    old_out, old_err = sys.stdout, sys.stderr
    old_sigint = signal.getsignal(signal.SIGINT)
    old_sigterm = signal.getsignal(signal.SIGTERM)
    old_hook = sys.unraisablehook
    old_env = None
    if env is not None:
        old_env = dict(os.environ)
        os.environ.update(env)
    sys.unraisablehook = lambda u: res.unraisable.append((type(u.exc_value).__name__, str(u.exc_value)))
    m["sigchld"].SigchldHelper._Instance = None
    del subprocess._active[:]
    vkmod.CURRENT["vk"] = vk
    try:
        with patched(pairs):
            os.chdir(cwd)
            sys.argv = ["cond"] + list(argv)
            sys.stdout, sys.stderr = out, err
            old_alarm = None
            try:
                if timeout is not None:
                    _alarm_state.update(res=res, vk=vk, stage=0, grace=min(20, max(2, timeout)))
                    old_alarm = signal.signal(signal.SIGALRM, _on_alarm)
                    signal.setitimer(signal.ITIMER_REAL, timeout)
                if tracer is not None:
                    tracer.start()
                try:
                    m["cmain"].main()
                finally:
                    if tracer is not None:
                        tracer.stop()
                res.exit = 0
            except SystemExit as ex:
                res.exit = ex.code if isinstance(ex.code, int) else (0 if ex.code is None else 1)
            except HardExit as ex:
                res.exit = ex.status
            except vkmod.HarnessError:
                raise
            except BaseException as ex:  # internal error or harness-level exception
                res.exit = "EXC"
                res.exc = ex
            finally:
                sys.stdout, sys.stderr = old_out, old_err
                # drop frames/objects of the run so that finalizers (Popen.__del__, OutputHandler.__del__) run under the VK
                try:
                    if res.exc is not None:
                        res.exc_tb = None
                        res.exc.__traceback__ = None
                    gc.collect()
                finally:
                    if timeout is not None:
                        signal.setitimer(signal.ITIMER_REAL, 0)
                        if old_alarm is not None:
                            signal.signal(signal.SIGALRM, old_alarm)
                        _alarm_state.update(res=None, vk=None)
            if vk is not None and vk.fatal is not None and res.exc is None:
                res.exit = "EXC"
                res.exc = vk.fatal
    finally:
        sys.stdout, sys.stderr = old_out, old_err
        sys.argv = old_argv
        os.chdir(old_cwd)
        signal.signal(signal.SIGINT, old_sigint)
        signal.signal(signal.SIGTERM, old_sigterm)
        sys.unraisablehook = old_hook
        if old_env is not None:
            os.environ.clear()
            os.environ.update(old_env)
        if vk is not None:
            vk.teardown()
        vkmod.CURRENT["vk"] = None
        del subprocess._active[:]
        m["sigchld"].SigchldHelper._Instance = None
    res.stdout, res.stderr = out.getvalue(), err.getvalue()
    res.fwd_out, res.fwd_err = b"".join(out.bparts), b"".join(err.bparts)
    res.out_text, res.err_text = out.text(), err.text()
    return res


# ---------------------------------------------------------------------------- observation helpers
RUNNING = re.compile(r"^✱ Running (\S+?)\.\.\. \((\d+)/(\d+)\)$")
SKIPPING = re.compile(r"^✱ Skipping (\S+?)\. \((\d+)/(\d+)\)$")
OK = re.compile(r"^✓ (\S+) completed successfully\.$")
FAILED = re.compile(r"^✘ (\S+) failed\.$")
CACHED = re.compile(r"^✓ Using cached results for (\S+)\.$")


def parse_report(out_text):
    """Parse the final 'Failed task(s)' / 'Skipped task(s)' sections."""
    failed, skipped = [], []
    section = None
    for line in out_text.splitlines():
        s = line.rstrip()
        if s.startswith("Failed task(s):"):
            section = "f"
            continue
        if s.startswith("Skipped task(s)"):
            section = "s"
            continue
        if section and s.startswith("  //") and not s.startswith("    "):
            (failed if section == "f" else skipped).append(s.strip())
        elif section and s.strip() == "":
            continue
        elif section and not s.startswith("    "):
            section = None
    return failed, skipped
