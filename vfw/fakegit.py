"""
Fake git: interprets exactly the git command lines that conductor/utils/git.py builds, over an in-memory
commit DAG.  Exit codes / stdout follow git 2.39 (bound to the real git by checks/conformance of C05).
"""
import subprocess


class FakeGit:
    """
    commits: {hash: [parent hashes]}   head: hash or None (no commits yet)   is_repo: bool   dirty: bool
    refs: {name: hash}
    """

    def __init__(self, commits=None, head=None, is_repo=True, dirty=False, refs=None, files=None):
        self.commits = dict(commits or {})
        self.head = head
        self.is_repo = is_repo
        self.dirty = dirty
        self.refs = dict(refs or {})
        self.files = list(files or [])
        self.calls = []

    # -------------------------------------------------------------- graph helpers
    def reach(self, h):
        seen, stack = set(), [h]
        while stack:
            x = stack.pop()
            if x in seen or x not in self.commits:
                continue
            seen.add(x)
            stack.extend(self.commits[x])
        return seen

    def resolve(self, sym):
        if sym == "HEAD":
            return self.head
        if sym in self.refs:
            return self.refs[sym]
        if sym in self.commits:
            return sym
        return None

    # -------------------------------------------------------------- the seam
    def run(self, argv, cwd=None, check=False, stdout=None, stderr=None, capture_output=False, text=None, **kw):
        self.calls.append(tuple(argv))
        code, out = self._interp(list(argv))
        if capture_output or stdout == subprocess.PIPE:
            so = out if text else out.encode()
            se = "" if text else b""
        else:
            so = se = None
        return subprocess.CompletedProcess(argv, code, so, se)

    def _interp(self, argv):
        assert argv[0] == "git", argv
        a = argv[1:]
        if not self.is_repo:
            return 128, ""
        if a == ["rev-parse", "--git-dir"]:
            return 0, ".git\n"
        if a[0] == "rev-parse" and len(a) == 2:
            h = self.resolve(a[1])
            if h is None:
                return 128, a[1] + "\n"
            return 0, h + "\n"
        if a[:2] == ["diff-index", "--quiet"]:
            if self.resolve(a[2]) is None:
                return 128, ""
            return (1 if self.dirty else 0), ""
        if a[:2] == ["merge-base", "--is-ancestor"]:
            anc, desc = self.resolve(a[2]), self.resolve(a[3])
            if anc is None or desc is None:
                return 128, ""
            return (0 if anc in self.reach(desc) else 1), ""
        if a[0] == "ls-files":
            return 0, "".join(f + "\n" for f in self.files)
        if a[0] == "rev-list":
            r = self._rev_list(a[1:])
            if r is not None:
                return r
        # A command line this model does not know (the code under test builds its git calls differently): ask the
        # real git on a real repository with the same commit graph, translating the hashes both ways.
        return self._real(argv)

    def _rev_list(self, args):
        """`git rev-list [--count] [--first-parent] <rev|^rev|a..b>...` (the forms a distance computation can take)."""
        count = first_parent = False
        pos, neg = [], []
        for t in args:
            if t == "--count":
                count = True
            elif t == "--first-parent":
                first_parent = True
            elif t.startswith("--"):
                return None
            elif ".." in t and "..." not in t:
                x, y = t.split("..", 1)
                neg.append(x or "HEAD")
                pos.append(y or "HEAD")
            elif t.startswith("^"):
                neg.append(t[1:])
            else:
                pos.append(t)
        ps, ns = [self.resolve(x) for x in pos], [self.resolve(x) for x in neg]
        if None in ps or None in ns or not ps:
            return 128, ""
        excluded = set()
        for n in ns:
            excluded |= self.reach(n)
        seen, stack = [], list(ps)
        while stack:
            x = stack.pop()
            if x in seen or x in excluded:
                continue
            seen.append(x)
            parents = self.commits.get(x, [])
            stack.extend(parents[:1] if first_parent else parents)
        if count:
            return 0, "%d\n" % len(seen)
        return None  # listing order is git's business: use the real one

    # -------------------------------------------------------------- real git fallback
    def _real(self, argv):
        import os
        import shutil
        import tempfile
        if getattr(self, "_realrepo", None) is None:
            base = "/dev/shm" if os.path.isdir("/dev/shm") else None
            d = tempfile.mkdtemp(prefix="vfw-fakegit-", dir=base)
            env = dict(os.environ, GIT_AUTHOR_NAME="a", GIT_AUTHOR_EMAIL="a@x", GIT_COMMITTER_NAME="a", GIT_COMMITTER_EMAIL="a@x",
                       GIT_AUTHOR_DATE="2020-01-01T00:00:00Z", GIT_COMMITTER_DATE="2020-01-01T00:00:00Z", GIT_CONFIG_NOSYSTEM="1",
                       HOME="/nonexistent")

            from . import driver as _drv

            def g(*a):
                with _drv.unguarded():
                    r = subprocess.run(["git"] + list(a), cwd=d, env=env, capture_output=True, text=True)
                if r.returncode != 0:
                    raise AssertionError("fake git fallback: git %r failed: %s" % (a, r.stderr))
                return r.stdout.strip()

            g("init", "-q")
            fmap, done = {}, set()
            order = []

            def visit(h):
                if h in done or h not in self.commits:
                    return
                done.add(h)
                for p in self.commits[h]:
                    visit(p)
                order.append(h)

            for h in sorted(self.commits):
                visit(h)
            for i, h in enumerate(order):
                args = ["commit-tree", "4b825dc642cb6eb9a060e54bf8d69288fbee4904", "-m", "c-%s" % h[:6]]
                for p in self.commits[h]:
                    args += ["-p", fmap[p]]
                fmap[h] = g(*args)
            if self.head is not None:
                g("update-ref", "--no-deref", "HEAD", fmap[self.head])
            for name, h in self.refs.items():
                g("update-ref", "refs/heads/" + name, fmap[h])
            if self.dirty and self.head is not None:
                with open(os.path.join(d, "dirty"), "w") as f:
                    f.write("x")
                g("add", "dirty")
            self._realrepo, self._fmap, self._renv = d, fmap, env
            import atexit
            atexit.register(shutil.rmtree, d, True)
        tr = list(argv)
        for f, r in self._fmap.items():
            tr = [t.replace(f, r) for t in tr]
        from . import driver
        with driver.unguarded():
            res = subprocess.run(tr, cwd=self._realrepo, env=self._renv, capture_output=True, text=True)
        out = res.stdout
        for f, r in self._fmap.items():
            out = out.replace(r, f)
        self.fallbacks = getattr(self, "fallbacks", 0) + 1
        return res.returncode, out


NO_GIT = FakeGit(is_repo=False)


class RealGit:
    """The real git, usable while the process seam of a virtual run is installed (C17: nested repositories, cwd handling)."""

    def run(self, argv, **kw):
        from . import driver
        import os
        env = dict(os.environ, GIT_CONFIG_NOSYSTEM="1", HOME="/nonexistent", GIT_CEILING_DIRECTORIES=driver.scratch_root())
        kw.setdefault("env", env)
        with driver.unguarded():
            return subprocess.run(argv, **kw)

