"""
Fake git: interprets exactly the git command lines that conductor/utils/git.py builds, over an in-memory
commit DAG.  Exit codes / stdout follow git 2.39 (bound to the real git by checks/conformance of C05).
"""
import subprocess


class FakeGit:
    """
    commits: {hash: [parent hashes]}   head: hash or None (no commits yet)   is_repo: bool   dirty: bool
    refs: {name: hash}
    """

    def __init__(self, commits=None, head=None, is_repo=True, dirty=False, refs=None, files=None):
        self.commits = dict(commits or {})
        self.head = head
        self.is_repo = is_repo
        self.dirty = dirty
        self.refs = dict(refs or {})
        self.files = list(files or [])
        self.calls = []

    # -------------------------------------------------------------- graph helpers
    def reach(self, h):
        seen, stack = set(), [h]
        while stack:
            x = stack.pop()
            if x in seen or x not in self.commits:
                continue
            seen.add(x)
            stack.extend(self.commits[x])
        return seen

    def resolve(self, sym):
        if sym == "HEAD":
            return self.head
        if sym in self.refs:
            return self.refs[sym]
        if sym in self.commits:
            return sym
        return None

    # -------------------------------------------------------------- the seam
    def run(self, argv, cwd=None, check=False, stdout=None, stderr=None, capture_output=False, text=None, **kw):
        self.calls.append(tuple(argv))
        code, out = self._interp(list(argv))
        if capture_output or stdout == subprocess.PIPE:
            so = out if text else out.encode()
            se = "" if text else b""
        else:
            so = se = None
        return subprocess.CompletedProcess(argv, code, so, se)

    def _interp(self, argv):
        assert argv[0] == "git", argv
        a = argv[1:]
        if not self.is_repo:
            return 128, ""
        if a == ["rev-parse", "--git-dir"]:
            return 0, ".git\n"
        if a[0] == "rev-parse" and len(a) == 2:
            h = self.resolve(a[1])
            if h is None:
                return 128, a[1] + "\n"
            return 0, h + "\n"
        if a[:2] == ["diff-index", "--quiet"]:
            if self.resolve(a[2]) is None:
                return 128, ""
            return (1 if self.dirty else 0), ""
        if a[:2] == ["merge-base", "--is-ancestor"]:
            anc, desc = self.resolve(a[2]), self.resolve(a[3])
            if anc is None or desc is None:
                return 128, ""
            return (0 if anc in self.reach(desc) else 1), ""
        if a[:2] == ["rev-list", "--count"]:
            start = self.resolve(a[2])
            assert a[3].startswith("^"), argv
            excl = self.resolve(a[3][1:])
            if start is None or excl is None:
                return 128, ""
            return 0, "%d\n" % len(self.reach(start) - self.reach(excl))
        if a[0] == "ls-files":
            return 0, "".join(f + "\n" for f in self.files)
        raise AssertionError("fake git: unmodelled command line %r" % (argv,))


NO_GIT = FakeGit(is_repo=False)
