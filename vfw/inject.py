"""
Point injector (E5): sys.settrace based.

  AbortInjector      raise ConductorAbort at the k-th line event of Conductor code (how an exception raised by a
                     Python signal handler surfaces in the interrupted frame); k=None only counts.
  CrashSnapshotter   line events in *all* Python frames; whenever the on-disk signature of the project tree differs
                     from the previous point, copy the tree: exactly what survives `kill -9` at that point.
"""
import os
import shutil
import sys
import threading

SRC = os.environ.get("VFW_REPO", "/repo").rstrip("/") + "/src/conductor"


class AbortInjector:
    def __init__(self, k=None, exc_factory=None, start_after="register_signal_handlers", target=None, granularity="line", start_in=None):
        """k: fire at the k-th armed line event.  target=(file, line, nth): fire at the nth time that line is reached
        (robust against per-process differences in event numbering; used by replays)."""
        self.k = k
        # "line": every executed line of Conductor code.  "evalbreaker": the instructions at which CPython 3.12 actually
        # runs Python-level signal handlers in pure-Python code - RESUME (function entry) and JUMP_BACKWARD (loop back-edge);
        # an exception raised there is looked up in the exception table with that instruction's offset, exactly as for a
        # real handler.
        # "aftercall": the instruction that follows a CALL which ran C code only (no Python frame was entered): CPython 3.12 checks
        # the eval breaker at the end of such a CALL, so a handler's exception surfaces after the C function (e.g. sqlite3's
        # commit) has returned and before anything else in the frame runs.  Only points whose exception-table handler is
        # the same as the CALL's are used (the real exception is looked up with the CALL's offset).
        self.granularity = granularity
        self._pending = {}            # frame -> offset of the CALL just executed, while no Python frame has been entered since
        self.target = tuple(target) if target is not None else None
        self.per_line = {}
        self.nth = None
        self.count = 0
        self.armed = start_after is None and start_in is None
        self.start_after = start_after
        self.start_in = start_in      # (file suffix, function name): armed from the first event inside that function
        self.fired_at = None
        self.skipped_finalizer = False
        self.exc_factory = exc_factory
        self.vk_log_len = None
        self.on_fire = None
        self._thread = None

    def start(self):
        self._thread = threading.get_ident()
        sys.settrace(self._global)

    def stop(self):
        sys.settrace(None)

    def _global(self, frame, event, arg):
        if self.granularity == "aftercall" and self._pending:
            self._pending.clear()     # a Python frame is being entered: the pending CALL is not a pure C call
        if frame.f_code.co_filename.startswith(SRC):
            if self.granularity in ("evalbreaker", "aftercall"):
                frame.f_trace_opcodes = True
                frame.f_trace_lines = False
                if self.armed and event == "call":
                    # the RESUME of this frame (a "call" event precedes the first opcode event)
                    pass
            return self._local
        return None

    def _local(self, frame, event, arg):
        if not self.armed and self.start_in is not None and frame.f_code.co_name == self.start_in[1] \
                and frame.f_code.co_filename.endswith(self.start_in[0]):
            self.armed = True
        if event == "return":
            if not self.armed and frame.f_code.co_name == self.start_after:
                self.armed = True
            return self._local
        if not self.armed:
            return self._local
        if self.granularity == "aftercall":
            if event != "opcode":
                return self._local
            call_at = self._pending.pop(frame, None)
            self._pending.clear()
            op = frame.f_code.co_code[frame.f_lasti]
            if op in _CALL_OPS:
                self._pending[frame] = frame.f_lasti
            if call_at is None or _handler_at(frame.f_code, call_at) != _handler_at(frame.f_code, frame.f_lasti):
                return self._local
            key = (frame.f_code.co_filename[len(SRC) + 1:], frame.f_lineno, "after-CALL", call_at)
        elif self.granularity == "evalbreaker":
            if event != "opcode":
                return self._local
            op = frame.f_code.co_code[frame.f_lasti]
            if op not in _EVAL_BREAKER_OPS:
                return self._local
            key = (frame.f_code.co_filename[len(SRC) + 1:], frame.f_lineno, _OPNAME[op], frame.f_lasti)
        else:
            if event != "line":
                return self._local
            if frame.f_lineno in _inert_lines(frame.f_code):
                # nothing on this line can run a signal handler or any other Python code (e.g. an `except X:` clause being
                # matched while an exception propagates): an exception raised by a handler cannot surface here
                return self._local
            key = (frame.f_code.co_filename[len(SRC) + 1:], frame.f_lineno)
        n = self.count
        self.count += 1
        occ = self.per_line.get(key, 0)
        self.per_line[key] = occ + 1
        hit = (self.k is not None and n == self.k) or (self.target is not None and key == self.target[:-1] and occ == self.target[-1])
        if hit and self.fired_at is None:
            self.nth = occ
            f = frame
            while f is not None:
                if f.f_code.co_name == "__del__":
                    self.skipped_finalizer = True
                    self.fired_at = ("finalizer", frame.f_code.co_filename, frame.f_lineno)
                    return self._local
                f = f.f_back
            self.fired_at = (frame.f_code.co_name, frame.f_code.co_filename[len(SRC) + 1:], frame.f_lineno) + tuple(key[2:])
            self.fired_key = key
            if self.on_fire is not None:
                self.on_fire(self)
            sys.settrace(None)
            raise self.exc_factory()
        return self._local


import dis as _dis

# Instructions that neither check the eval breaker nor can call into Python or C code that does: loads/stores of locals, globals
# and constants, stack shuffling, exception-table bookkeeping and jumps forward.
_INERT_OPS = {"NOP", "CACHE", "PUSH_EXC_INFO", "POP_EXCEPT", "CHECK_EXC_MATCH", "RERAISE", "LOAD_GLOBAL", "LOAD_FAST", "LOAD_FAST_CHECK",
              "LOAD_FAST_AND_CLEAR", "LOAD_CONST", "STORE_FAST", "DELETE_FAST", "POP_TOP", "COPY", "SWAP", "PUSH_NULL", "JUMP_FORWARD",
              "POP_JUMP_IF_TRUE", "POP_JUMP_IF_FALSE", "POP_JUMP_IF_NONE", "POP_JUMP_IF_NOT_NONE", "LOAD_DEREF", "STORE_DEREF",
              "MAKE_CELL", "COPY_FREE_VARS", "LOAD_CLOSURE", "EXTENDED_ARG", "END_FOR", "IS_OP"}
_inert_cache = {}


def _inert_lines(code):
    """Lines of `code` all of whose instructions are inert (see _INERT_OPS)."""
    r = _inert_cache.get(code)
    if r is None:
        per_line = {}
        line = None
        for ins in _dis.get_instructions(code):
            if ins.starts_line is not None:
                line = ins.starts_line
            per_line.setdefault(line, []).append(ins.opname)
        r = frozenset(l for l, ops in per_line.items() if l is not None and all(o in _INERT_OPS for o in ops))
        _inert_cache[code] = r
    return r


_OPNAME = _dis.opname
_CALL_OPS = {_dis.opmap[n] for n in ("CALL", "CALL_FUNCTION_EX") if n in _dis.opmap}
_handler_cache = {}


def _handler_at(code, offset):
    """Target of the exception-table entry covering `offset` (None when unprotected)."""
    tab = _handler_cache.get(code)
    if tab is None:
        tab = _handler_cache[code] = [(e.start, e.end, e.target) for e in _dis._parse_exception_table(code)]
    for start, end, target in tab:
        if start <= offset < end:
            return target
    return None


_EVAL_BREAKER_OPS = {_dis.opmap[n] for n in ("RESUME", "JUMP_BACKWARD") if n in _dis.opmap}


class CrashSnapshotter:
    def __init__(self, root, snapdir, max_snaps=400, only_under=None):
        self.root = root
        self.snapdir = snapdir
        self.watch = only_under or root
        self.snapshots = []
        self.where = []
        self.events = 0
        self.last_sig = None
        self.max_snaps = max_snaps
        self.capped = False
        shutil.rmtree(snapdir, ignore_errors=True)
        os.makedirs(snapdir)

    def start(self):
        self.last_sig = self._sig()
        sys.settrace(self._global)

    def stop(self):
        sys.settrace(None)

    def _sig(self):
        out = []
        for d, dirs, files in os.walk(self.watch):
            dirs.sort()
            out.append(d)
            for x in dirs:
                p = os.path.join(d, x)
                if os.path.islink(p):   # links to directories are listed among dirs but not walked
                    try:
                        out.append((x, "->", os.readlink(p)))
                    except OSError:
                        out.append((x, "->", None))
            for f in sorted(files):
                try:
                    st = os.lstat(os.path.join(d, f))
                    out.append((f, st.st_size, st.st_mtime_ns, st.st_ino))
                except OSError:
                    out.append((f, None))
        return out

    def _global(self, frame, event, arg):
        fn = frame.f_code.co_filename
        if fn.startswith("/verif/"):
            return None
        return self._local

    def _local(self, frame, event, arg):
        if event != "line":
            return self._local
        self.events += 1
        sig = self._sig()
        if sig != self.last_sig:
            self.last_sig = sig
            if len(self.snapshots) >= self.max_snaps:
                self.capped = True
                return self._local
            dest = os.path.join(self.snapdir, "s%04d" % len(self.snapshots))
            sys.settrace(None)
            try:
                shutil.copytree(self.root, dest, symlinks=True)
            finally:
                sys.settrace(self._global)
            self.snapshots.append(dest)
            self.where.append("%s:%d" % (frame.f_code.co_filename.replace(SRC[:-len("conductor")], "").replace(sys.prefix, "<py>"), frame.f_lineno))
        return self._local
