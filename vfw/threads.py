"""
Controlled scheduler for Conductor's tee threads (C10).

Conductor copies a task's stdout and stderr with two jobs submitted to ONE TeeProcessor (a 2-thread pool).  This module
runs those two jobs of the real TeeProcessor against scripted pipes under a baton-passing scheduler: every executed line
of conductor/utils/tee.py is a scheduling point (sys.settrace in the worker threads), exactly one thread runs at a time,
and the explorer enumerates all interleavings with at most `bound` preemptions (a switch away from a thread that could
have continued).  Executions are replayed from a schedule (list of thread tags).
"""
import os
import sys
import threading

from . import driver, vk as vkmod


class ScriptedPipe:
    """A finished child's pipe: the scripted chunks are returned by successive reads (never more than asked for), then EOF."""

    def __init__(self, chunks, tag):
        self.chunks = [bytes(c) for c in chunks if len(c)]
        self.tag = tag

    def _take(self, n):
        if not self.chunks:
            return b""
        c = self.chunks[0]
        if n is not None and 0 <= n < len(c):
            self.chunks[0] = c[n:]
            return c[:n]
        self.chunks.pop(0)
        return c

    def read1(self, n=-1):
        return self._take(n)

    def read(self, n=-1):
        out = b""
        while n is None or n < 0 or len(out) < n:
            c = self._take(None if (n is None or n < 0) else n - len(out))
            if not c:
                break
            out += c
        return out

    def readinto1(self, b):
        c = self._take(len(b))
        b[:len(c)] = c
        return len(c)

    readinto = readinto1

    def readline(self, n=-1):
        c = self._take(n)
        return c

    def close(self):
        pass

    def fileno(self):
        raise OSError("scripted pipe has no file descriptor")


class Divergence(vkmod.HarnessError):
    pass


class TeeRun:
    def __init__(self, out_chunks, err_chunks, schedule=(), tmpdir=None):
        self.data = {"o": list(out_chunks), "e": list(err_chunks)}
        self.schedule = list(schedule)
        self.tmp = tmpdir or os.path.join(driver.scratch_root(), "tee-threads")
        os.makedirs(self.tmp, exist_ok=True)
        self.lock = threading.Lock()
        self.ctrl = threading.Semaphore(0)
        self.sems = {}
        self.tag_of = {}
        self.waiting = set()
        self.finished = set()
        self.next_tag = None
        self.trace = []      # (enabled tags, chosen)
        self.error = None
        self.tee_file = os.path.join(driver.REPO_SRC, "conductor", "utils", "tee.py")

    # ---- worker side
    def _global(self, frame, event, arg):
        if frame.f_code.co_filename == self.tee_file:
            return self._local
        return None

    def _local(self, frame, event, arg):
        if event == "line":
            self._yield()
        return self._local

    def _yield(self):
        tid = threading.get_ident()
        with self.lock:
            if tid not in self.tag_of:
                self.tag_of[tid] = self.next_tag
                self.sems[self.tag_of[tid]] = threading.Semaphore(0)
            tag = self.tag_of[tid]
            self.waiting.add(tag)
        self.ctrl.release()
        self.sems[tag].acquire()

    def _done(self, tag):
        def cb(fut):
            with self.lock:
                self.finished.add(tag)
                self.waiting.discard(tag)
            self.ctrl.release()
        return cb

    # ---- controller side
    def run(self):
        from conductor.utils.tee import TeeProcessor
        import pathlib
        tp = TeeProcessor()
        streams = {"o": driver.LogStream("stdout"), "e": driver.LogStream("stderr")}
        paths = {t: os.path.join(self.tmp, t + ".log") for t in "oe"}
        for p in paths.values():
            if os.path.exists(p):
                os.unlink(p)
        futs = {}
        old = threading.gettrace() if hasattr(threading, "gettrace") else None
        threading.settrace(self._global)
        try:
            for tag in "oe":
                self.next_tag = tag
                futs[tag] = tp.tee_pipe(ScriptedPipe(self.data[tag], tag), streams[tag], pathlib.Path(paths[tag]))
                futs[tag].add_done_callback(self._done(tag))
                # wait until the new job's thread is parked at its first line (or finished at once)
                self._wait_parked(tag)
            running = None
            step = 0
            while True:
                with self.lock:
                    enabled = sorted(self.waiting)
                if not enabled:
                    break
                # canonical order: the thread that ran last first (continuing it is not a preemption)
                if running in enabled:
                    enabled.remove(running)
                    enabled.insert(0, running)
                if step < len(self.schedule):
                    tag = self.schedule[step]
                    if tag not in enabled:
                        raise Divergence("replay divergence: scheduled thread %r not enabled %r at step %d" % (tag, enabled, step))
                else:
                    tag = enabled[0]
                self.trace.append((tuple(enabled), tag))
                step += 1
                running = tag
                with self.lock:
                    self.waiting.discard(tag)
                self.sems[tag].release()
                self._wait_parked(tag)
        finally:
            threading.settrace(old)
            # let any parked thread run to completion (only reached on errors)
            with self.lock:
                for tag in list(self.waiting):
                    self.sems[tag].release()
        for tag in "oe":
            try:
                futs[tag].result(timeout=20)
            except Exception as ex:  # noqa
                self.error = "%s job raised %s: %s" % (tag, type(ex).__name__, ex)
        tp.shutdown()
        logs = {}
        for t in "oe":
            with open(paths[t], "rb") as f:
                logs[t] = f.read()
        fwd = {t: b"".join(streams[t].bparts) for t in "oe"}
        return logs, fwd

    def _wait_parked(self, tag):
        while True:
            if not self.ctrl.acquire(timeout=20):
                raise vkmod.HarnessError("tee thread %r neither reached a scheduling point nor finished within 20 s" % tag)
            with self.lock:
                if tag in self.waiting or tag in self.finished:
                    return


def explore_tee(out_chunks, err_chunks, bound, on_execution, max_executions=200000):
    """All interleavings of the two tee jobs with <= bound preemptions."""
    stack = [()]
    n = 0
    capped = False
    while stack:
        prefix = stack.pop()
        if n >= max_executions:
            capped = True
            break
        run = TeeRun(out_chunks, err_chunks, prefix)
        logs, fwd = run.run()
        n += 1
        chosen = [t[1] for t in run.trace]
        on_execution(chosen, logs, fwd, run.error)
        # preemptions so far along the executed schedule
        pre = 0
        pre_before = []
        for enabled, tag in run.trace:
            pre_before.append(pre)
            if tag != enabled[0]:
                pre += 1
        for i in range(len(prefix), len(run.trace)):
            enabled, tag = run.trace[i]
            for alt in enabled[1:]:
                if pre_before[i] + 1 <= bound:
                    stack.append(tuple(chosen[:i]) + (alt,))
    return n, capped
