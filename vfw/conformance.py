"""
Conformance of the environment models with the real environment.

  replay_trace_on_real_kernel(scn, obs)
      Re-run one virtual-kernel execution (a deviation-0 trace: spawn/exit order + statuses) against a REAL `cond run`
      process: the tasks are real bash processes that announce themselves and then block on a FIFO until the harness
      releases them in the order of the virtual trace.  Every observable must agree: what each task saw (argv, cwd,
      COND_NAME/COND_SLOT/COND_OUT/COND_DEPS), Conductor's output lines, exit status, index rows.

  kernel_semantics()
      The waitpid / getpgid / killpg rules the virtual kernel implements, checked against Linux with real children.
"""
import errno
import os
import re
import signal
import subprocess
import threading
import time

from . import driver, vk as vkmod

TASK_SH = r"""#!/bin/bash
# announce (one line, atomic append), then block until the harness sends an exit status
printf '%s\x1f%s\x1f%s\x1f%s\x1f%s\x1f%s\n' "$COND_NAME" "${COND_SLOT-<unset>}" "$COND_OUT" "$COND_DEPS" "$PWD" "$*" >> "$VFW_TRACE"
key="$(realpath --relative-to="$VFW_ROOT" "$PWD")/$COND_NAME"
fifo="$VFW_FIFOS/$(echo "$key" | tr '/' '_')"
read code < "$fifo"
if [ "$code" = "k9" ]; then kill -9 $$; fi
if [ "$code" = "k15" ]; then kill -15 $$; fi
if [ "$code" = "0" ]; then echo out-"$COND_NAME"; touch "$COND_OUT/DONE"; fi
exit "$code"
"""

TIME = re.compile(r"\(Ran for [^)]*\)")


class Mismatch(Exception):
    pass


_timeouts_seen = [0]


def _wait(pred, what, timeout=60.0):
    # once a replay has timed out in this worker (the real run diverged), later replays do not wait a full minute each
    if _timeouts_seen[0]:
        timeout = min(timeout, 8.0)
    t0 = time.time()
    while time.time() - t0 < timeout:
        if pred():
            return
        time.sleep(0.002)
    _timeouts_seen[0] += 1
    raise Mismatch("timeout waiting for " + what)


def _kill_leftovers(root):
    """Task processes of an abandoned real run (each in its own session, blocked on its FIFO): found by the marker in their
    environment, never by process group (the harness's own group must not be touched)."""
    marker = ("VFW_ROOT=" + root).encode()
    me = os.getpid()
    for d in os.listdir("/proc"):
        if not d.isdigit() or int(d) == me:
            continue
        try:
            with open("/proc/%s/environ" % d, "rb") as f:
                env = f.read().split(b"\0")
        except OSError:
            continue
        if marker in env:
            try:
                os.kill(int(d), signal.SIGKILL)
            except OSError:
                pass


def replay_trace_on_real_kernel(scn, obs):
    """Returns list of mismatch descriptions (empty = the real run is observationally identical)."""
    files = dict(scn["files"])
    # every task runs the same script; "./tN.sh" in the generated COND files -> one script per package dir
    root = driver.fresh_project(files, name="real", config=scn.get("config", ""),
                                index_rows=[tuple(r) for r in scn["index_rows"]] if scn.get("index_rows") is not None else None,
                                pre_tree=scn.get("pre_tree"))
    for rel in list(files):
        d = os.path.dirname(rel)
        text = files[rel]
        for m in set(re.findall(r'run="\./([A-Za-z0-9_-]+)\.sh"', text)):
            p = os.path.join(root, d, m + ".sh")
            with open(p, "w") as f:
                f.write(TASK_SH)
            os.chmod(p, 0o755)
    fifos = os.path.join(root, ".fifos")
    os.makedirs(fifos)
    trace = os.path.join(root, ".trace")
    open(trace, "w").close()
    # one FIFO per task that the virtual run spawned
    vspawns = [e for e in obs.vk.log if e[0] == "spawn"]
    def fifo_of(info):
        key = os.path.relpath(info["cwd"], obs.root) + "/" + info["name"]
        return os.path.join(fifos, key.replace("/", "_"))

    for e in vspawns:
        p = fifo_of(e[3])
        if not os.path.exists(p):
            os.mkfifo(p)
    env = dict(os.environ)
    env.update({"VFW_TRACE": trace, "VFW_FIFOS": fifos, "VFW_ROOT": root, "PYTHONPATH": driver.REPO_SRC, "PYTHONUNBUFFERED": "1"})
    env.pop("COND_OUT", None)
    proc = subprocess.Popen(["/venv/bin/python", "-m", "conductor"] + list(scn["argv"]), cwd=os.path.join(root, scn.get("cwd", ".")),
                            env=env, stdout=subprocess.PIPE, stderr=subprocess.PIPE, start_new_session=True)
    out_lines, err_chunks = [], []

    def rd_out():
        for line in proc.stdout:
            out_lines.append(driver.ANSI.sub("", line.decode("utf-8", "replace")).rstrip("\n"))

    def rd_err():
        err_chunks.append(proc.stderr.read())

    t1 = threading.Thread(target=rd_out, daemon=True)
    t2 = threading.Thread(target=rd_err, daemon=True)
    t1.start()
    t2.start()
    mism = []
    try:
        def real_spawns():
            with open(trace) as f:
                return [l.rstrip("\n").split("\x1f") for l in f if l.strip()]

        nsp = 0
        for e in obs.vk.log:
            if e[0] == "spawn":
                nsp += 1
                _wait(lambda: len(real_spawns()) >= nsp or proc.poll() is not None, "spawn #%d (%s)" % (nsp, e[2]))
                if len(real_spawns()) < nsp:
                    raise Mismatch("real cond exited before spawning %s" % e[2])
            elif e[0] in ("exit", "killed"):
                if e[0] == "killed":
                    continue
                pid, key, status = e[1], e[2], e[3]
                code = str(os.WEXITSTATUS(status)) if os.WIFEXITED(status) else "k%d" % os.WTERMSIG(status)
                info = [s for s in vspawns if s[1] == pid][0][3]
                fifo = fifo_of(info)
                fd = os.open(fifo, os.O_WRONLY)
                os.write(fd, (code + "\n").encode())
                os.close(fd)
                name = key
                _wait(lambda: any(("%s completed successfully" % name) in l or ("%s failed" % name) in l for l in out_lines)
                      or proc.poll() is not None, "outcome line of %s" % name)
        proc.wait(timeout=8 if _timeouts_seen[0] else 60)
        t1.join(5)
        t2.join(5)
    except (Mismatch, subprocess.TimeoutExpired) as ex:
        mism.append(str(ex))
        _timeouts_seen[0] += 1
        proc.kill()
        proc.wait()
        _kill_leftovers(root)
        return mism
    # ---- compare observables
    vroot, rroot = obs.root, root

    def norm(s, r):
        return TIME.sub("(Ran for T)", s.replace(r, "<ROOT>"))

    v_out = [norm(l, vroot) for l in obs.res.out_text.splitlines() if l.strip() and not l.startswith("out-")]
    r_out = [norm(l, rroot) for l in out_lines if l.strip() and not l.startswith("out-")]
    if v_out != r_out:
        mism.append("stdout differs:\n  virtual: %r\n  real:    %r" % (v_out, r_out))
    v_err = norm(obs.res.err_text, vroot).strip()
    r_err = norm(driver.ANSI.sub("", b"".join(err_chunks).decode("utf-8", "replace")), rroot).strip()
    if v_err != r_err:
        mism.append("stderr differs: virtual %r real %r" % (v_err, r_err))
    v_exit = obs.res.exit
    if v_exit != proc.returncode:
        mism.append("exit status differs: virtual %r real %r" % (v_exit, proc.returncode))
    rs = real_spawns()
    if len(rs) != len(vspawns):
        mism.append("spawn count differs: virtual %d real %d" % (len(vspawns), len(rs)))
    else:
        vts = sorted({int(m.group(1)) for e in vspawns for m in [re.search(r"\.task\.(\d+)$", e[3]["out"] or "")] if m})
        rts = sorted({int(m.group(1)) for r in rs for m in [re.search(r"\.task\.(\d+)$", r[2])] if m})

        def canon(path, root_, tss):
            p = path.replace(root_, "<ROOT>")
            return re.sub(r"\.task\.(\d+)", lambda m: ".task.#%d" % tss.index(int(m.group(1))) if int(m.group(1)) in tss else m.group(0), p)

        # concurrently started tasks announce themselves in a racy order: pair the records by task (the start order is
        # compared through Conductor's own "Running ..." lines above)
        keyv = lambda e: (e[3]["cwd"].replace(vroot, ""), e[3]["name"])
        keyr = lambda r: (r[4].replace(rroot, ""), r[0])
        for e, r in zip(sorted(vspawns, key=keyv), sorted(rs, key=keyr)):
            i = e[3]
            v = [i["name"], i["slot"] if i["slot"] is not None else "<unset>", canon(i["out"], vroot, vts),
                 canon(i["deps"], vroot, vts), canon(i["cwd"], vroot, vts)]
            # the virtual layer records Popen's argv ["<run> <args> <options>"] (shell=True): bash -c of that string gives $* of the script
            cmdline = i["argv"][0]
            want_args = " ".join(cmdline.split()[1:])
            rr = [r[0], r[1], canon(r[2], rroot, rts), canon(r[3], rroot, rts), canon(r[4], rroot, rts)]
            if v != rr or want_args != r[5]:
                mism.append("task environment differs: virtual %r args %r / real %r args %r" % (v, want_args, rr, r[5]))
    vrows = sorted((r[0], r[2], r[3]) for r in (obs.rows or []))
    rrows = sorted((r[0], r[2], r[3]) for r in (driver.read_index(os.path.join(root, "cond-out", "version_index.sqlite")) or []))
    if vrows != rrows:
        mism.append("index rows differ: virtual %r real %r" % (vrows, rrows))
    return mism


# ------------------------------------------------------------------------------------------ syscall-level rules
def kernel_semantics():
    """Each rule the VK implements, observed on Linux with real children.  Returns list of (rule, ok, detail)."""
    out = []

    def rule(name, ok, detail=""):
        out.append((name, bool(ok), detail))

    # a fresh VK with two processes for comparison
    def vk_pair():
        k = vkmod.VK()
        for pid in (1, 2):
            p = vkmod.VProc(pid)
            p.key = "p%d" % pid
            p.behaviour = {}
            k.procs[pid] = p
        return k

    # 1. waitpid(-1, WNOHANG) with a live child and no zombie -> (0, 0)
    c = subprocess.Popen(["sleep", "30"], start_new_session=True)
    real = os.waitpid(-1, os.WNOHANG)
    k = vk_pair()
    rule("waitpid(-1,WNOHANG) with live children, no zombie = (0,0)", real == (0, 0) == k.waitpid(-1, os.WNOHANG))
    # 2. getpgid of a live session leader = pid
    rule("getpgid(live child started with start_new_session) = its pid", os.getpgid(c.pid) == c.pid and k.getpgid(1) == 1)
    # 3. killpg(SIGTERM) kills; zombie; getpgid of a zombie still answers
    os.killpg(c.pid, signal.SIGTERM)
    time.sleep(0.05)
    try:
        pg = os.getpgid(c.pid)
        real_ok = pg == c.pid
    except OSError:
        real_ok = False
    k.killpg(1, signal.SIGTERM)
    rule("getpgid(zombie) = pgid (no error before it is reaped)", real_ok and k.getpgid(1) == 1)
    # 4. waitpid(pid) reaps the zombie with the signal status
    rp = os.waitpid(c.pid, os.WNOHANG)
    vp = k.waitpid(1, os.WNOHANG, who="popen")
    rule("waitpid(pid,WNOHANG) reaps a zombie: status = signal number", rp[0] == c.pid and os.WIFSIGNALED(rp[1]) and os.WTERMSIG(rp[1]) == 15
         and vp[0] == 1 and os.WIFSIGNALED(vp[1]) and os.WTERMSIG(vp[1]) == 15)
    c.returncode = -15
    # 5. after reaping: waitpid(pid) -> ECHILD, getpgid -> ESRCH, killpg -> ESRCH
    def err(fn):
        try:
            fn()
            return None
        except OSError as ex:
            return ex.errno
    rule("waitpid(reaped pid) = ECHILD", err(lambda: os.waitpid(c.pid, os.WNOHANG)) == errno.ECHILD == err(lambda: k.waitpid(1, os.WNOHANG, who="popen")))
    rule("getpgid(reaped pid) = ESRCH", err(lambda: os.getpgid(c.pid)) == errno.ESRCH == err(lambda: k.getpgid(1)))
    rule("killpg(reaped group) = ESRCH", err(lambda: os.killpg(c.pid, signal.SIGTERM)) == errno.ESRCH == err(lambda: k.killpg(1, signal.SIGTERM)))
    # 6. waitpid(-1) with no children at all -> ECHILD
    k2 = vkmod.VK()
    rule("waitpid(-1) without children = ECHILD", err(lambda: os.waitpid(-1, os.WNOHANG)) == errno.ECHILD == err(lambda: k2.waitpid(-1, os.WNOHANG)))
    # 7. exit status encoding and waitpid(-1) reaping one zombie at a time
    a = subprocess.Popen(["bash", "-c", "exit 3"])
    b = subprocess.Popen(["bash", "-c", "exit 0"])
    time.sleep(0.1)
    got = []
    while True:
        try:
            pid, st = os.waitpid(-1, os.WNOHANG)
        except ChildProcessError:
            break
        if pid == 0:
            time.sleep(0.01)
            continue
        got.append((pid, st))
    a.returncode, b.returncode = 3, 0
    sts = dict(got)
    k = vk_pair()
    k._do_exit(k.procs[1], vkmod.st_exit(3))
    k._do_exit(k.procs[2], vkmod.st_exit(0))
    vgot = []
    while True:
        try:
            pid, st = k.waitpid(-1, os.WNOHANG)
        except ChildProcessError:
            break
        vgot.append((pid, st))
    rule("two zombies: waitpid(-1) returns them one at a time then ECHILD; exit code in bits 8..15",
         len(got) == 2 and os.WEXITSTATUS(sts[a.pid]) == 3 and os.WEXITSTATUS(sts[b.pid]) == 0
         and len(vgot) == 2 and os.WEXITSTATUS(dict(vgot)[1]) == 3, "%r %r" % (got, vgot))
    # 8. several exits under a blocked SIGCHLD are delivered as ONE signal (coalescing)
    hits = []
    old = signal.signal(signal.SIGCHLD, lambda s, f: hits.append(1))
    signal.pthread_sigmask(signal.SIG_BLOCK, {signal.SIGCHLD})
    ps = [subprocess.Popen(["true"]) for _ in range(3)]
    time.sleep(0.2)
    signal.pthread_sigmask(signal.SIG_UNBLOCK, {signal.SIGCHLD})
    time.sleep(0.05)
    signal.signal(signal.SIGCHLD, old)
    for p in ps:
        p.wait()
    rule("standard signals coalesce: 3 exits while SIGCHLD is pending = 1 delivery", len(hits) == 1, "deliveries=%d" % len(hits))
    # 9. a launch that fails after the fork (cwd does not exist): Popen raises FileNotFoundError naming the cwd, and a child did
    #    exist: it exits with 255 and is reaped EITHER by a SIGCHLD handler using waitpid(-1) OR by Popen.__init__ itself
    reaped = []

    def h(sig_, frame_):
        try:
            while True:
                pid, st = os.waitpid(-1, os.WNOHANG)
                if pid == 0:
                    break
                reaped.append((pid, st))
        except ChildProcessError:
            pass

    old = signal.signal(signal.SIGCHLD, h)
    errs, by_handler = set(), 0
    for _ in range(40):
        n0 = len(reaped)
        try:
            subprocess.Popen(["true"], cwd="/nonexistent-directory-for-vfw")
            errs.add("no error")
        except OSError as ex:
            errs.add((type(ex).__name__, ex.errno, ex.filename))
        by_handler += len(reaped) > n0
    signal.signal(signal.SIGCHLD, old)
    rule("exec failure after fork: FileNotFoundError(ENOENT, cwd) in the parent; the 255-exit of the short-lived child may be reaped "
         "by a waitpid(-1) handler", errs == {("FileNotFoundError", errno.ENOENT, "/nonexistent-directory-for-vfw")}
         and all(os.WEXITSTATUS(st) == 255 for _, st in reaped), "reaped by the handler in %d of 40 launches; %r" % (by_handler, errs))
    # 10. kill(pid) signals one process, killpg(pgid) the whole group
    lead = subprocess.Popen(["bash", "-c", "sleep 30 & echo $!; wait"], stdout=subprocess.PIPE, start_new_session=True)
    member = int(lead.stdout.readline())
    os.kill(lead.pid, signal.SIGTERM)
    lead.wait()
    time.sleep(0.05)
    try:
        os.kill(member, 0)
        member_alive = True
    except OSError:
        member_alive = False
    try:
        os.killpg(lead.pid, signal.SIGTERM)
        group_signalled = True
    except OSError:
        group_signalled = False
    time.sleep(0.05)
    k = vk_pair()
    k.kill(1, signal.SIGTERM)
    rule("kill(leader pid, SIGTERM) leaves the other members of the group running; killpg reaches them",
         member_alive and group_signalled and k.killpg_calls == [], "member alive after kill(leader): %s" % member_alive)
    return out
