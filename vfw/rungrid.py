"""
`cond run` cases over generated task graphs: scenario construction, execution summary, and the monitors
used by C01 (order), C02 (once), C03 (failure), C04 (parallelism), C09 (termination).

A *case* (JSON-able):
  g        [[dep idx in listing order] per node]     node 0 is the target
  kinds    ['cmd'|'exp'|'group'|'combine'] per node
  pars     [bool] per node
  jobs     int
  fails    {str(node): ['exit', code] | ['signal', n] | ['launch'] | ['conflict']}
  cached   [node idx]      experiments that already have a (git-less) version
  again / stop_early / unrelated   bool
  pkgs     [package path per node] (optional)
"""
import os
import re

from . import driver, graphs, ref, vk as vkmod

CACHE_TS = 1_600_000_000
# the fake repository of git cases: c1 <- c2 (HEAD), c3 is a side commit on c1 that is NOT an ancestor of HEAD
FAKE_COMMITS = {"c1" * 20: [], "c2" * 20: ["c1" * 20], "c3" * 20: ["c1" * 20]}
FAKE_REFS = {"tag-c1": "c1" * 20, "tag-c2": "c2" * 20, "main": "c2" * 20, "HEAD": "c2" * 20}
# case["history"] == "merge": c0 <- a1 (mainline) and c0 <- f1 <- f2 <- f3 (feature), merged into ee = HEAD (first parent a1).
# Commits between HEAD and f3: {ee, a1} (2); between HEAD and a1: {ee, f1, f2, f3} (4): f3 is the closer one although a1 is
# one first-parent step away.
MERGE_COMMITS = {"c0" * 20: [], "a1" * 20: ["c0" * 20], "f1" * 20: ["c0" * 20], "f2" * 20: ["f1" * 20], "f3" * 20: ["f2" * 20],
                 "ee" * 20: ["a1" * 20, "f3" * 20]}


def history_of(case):
    """(commits, head, refs) of the fake repository of a git case."""
    if case.get("history") == "merge":
        return MERGE_COMMITS, "ee" * 20, {"main": "ee" * 20}
    return FAKE_COMMITS, "c2" * 20, {k: v for k, v in FAKE_REFS.items() if k != "HEAD"}


def cached_versions(case, k):
    """[(timestamp, commit)] recorded for node k in this case (see make_scenario)."""
    cached = case.get("cached") or {}
    if isinstance(cached, list):
        cached = {str(i): None for i in cached}
    if str(k) not in cached:
        return []
    spec = cached[str(k)]
    ts = CACHE_TS + int(k)
    if isinstance(spec, list):
        return [(ts - 100 * (len(spec) - 1 - j), c) for j, c in enumerate(spec)]
    out = [(ts, spec)]
    if case.get("two_versions"):
        out.insert(0, (ts - 500, spec))
    return out


def make_scenario(case):
    g = [tuple(d) for d in case["g"]]
    n = len(g)
    kinds = case["kinds"]
    pars = case.get("pars") or [False] * n
    pkgs = case.get("pkgs") or [""] * n
    if case.get("dupdep"):
        # node lists one of its dependencies twice, the second time in the other (fully qualified / relative) spelling
        node, dep = case["dupdep"]
        g = [tuple(d) for d in g]
        g[node] = tuple(list(g[node]) + [("dup", dep)])
    files, ids = graphs.render_graph(g, kinds, pars, pkgs,
                                     args={int(k): v for k, v in (case.get("args") or {}).items()},
                                     options={int(k): v for k, v in (case.get("options") or {}).items()})
    if case.get("as_group"):
        # node 0 = the combine of a run_experiment_group whose instances are nodes 1..n-1 (all experiments, flags from `pars`):
        # the same graph, written with the macro
        assert kinds[0] == "combine" and all(k == "exp" for k in kinds[1:]) and all(tuple(d) == () for d in g[1:]), case
        insts = ", ".join('ExperimentInstance(name="t%d"%s)' % (i, ", parallelizable=True" if pars[i] else "") for i in g[0])
        files = {"COND": 'run_experiment_group(name="t0", run="./inst.sh", experiments=[%s])\n' % insts}
    if case.get("with_include"):
        # the root COND file include()s a settings file that computes something at load time
        files = dict(files)
        files["COND"] = 'include("defs.cond")\n' + files.get("COND", "")
        files["defs.cond"] = "SETTINGS = {'sizes': [2 ** i for i in range(4)]}\nNAMES = sorted(SETTINGS)\n"
    beh = {}
    pre_tree = {}
    rows = []
    for i in range(n):
        f = (case.get("fails") or {}).get(str(i))
        b = {}
        if f:
            if f[0] == "exit":
                b["status"] = vkmod.st_exit(f[1])
            elif f[0] == "signal":
                b["status"] = vkmod.st_signal(f[1])
            elif f[0] == "launch":
                b["launch_fail"] = True
            elif f[0] == "execfail":
                b["exec_fail"] = True      # fails after the fork: a child exists for a moment and exits with 255
            elif f[0] == "mkdir":
                # the task's output directory cannot be created: a regular file sits where cond-out/<pkg>/tN.task should go
                # (for experiments: where the package directory should go is not possible in the root, so block the parent of a sub-path)
                if kinds[i] == "exp":
                    b["launch_fail"] = True   # versioned directory names are not known in advance: use the spawn-level failure
                else:
                    pre_tree[os.path.join("cond-out", pkgs[i], "t%d.task" % i)] = "a regular file in the way\n"
            elif f[0] == "conflict":
                # a regular file where the combine task wants to put its link to its first dep with output
                dep = [j for j in g[i] if kinds[j] in ("cmd", "exp", "combine")][0]
                pre_tree[os.path.join("cond-out", pkgs[i], "t%d.task" % i, "t%d" % dep)] = "not a link\n"
        if i in (case.get("quiet") or []):
            b["quiet"] = True      # the task writes nothing into its output directory
        if kinds[i] == "exp":
            b.setdefault("stdout", "out-%d\n" % i)
        if b:
            beh[ids[i]] = b
    for i in case.get("leftover_at_clock") or []:
        # what a run that failed within the same second left behind: directories with the next ids the clock will produce
        for dt in range(0, n):
            pre_tree[os.path.join("cond-out", pkgs[i], "t%d.task.%d" % (i, 1_700_000_000 + dt), "partial.txt")] = "output of a failed execution\n"
    cached = case.get("cached") or {}
    if isinstance(cached, list):
        cached = {str(i): None for i in cached}
    for k in cached:
        i = int(k)
        for ts, commit in cached_versions(case, k):
            rows.append([ids[i], ts, commit, 0])
            pre_tree[os.path.join("cond-out", pkgs[i], "t%d.task.%d" % (i, ts), "old")] = "cached %d\n" % ts
    argv = ["run", ids[0]]
    if case.get("at_least"):
        argv += ["--at-least", case["at_least"]]
    if case.get("jobs", 1) != 1 or case.get("force_j"):
        argv += ["-j", str(case.get("jobs", 1))]
    if case.get("again"):
        argv.append("--again")
    if case.get("stop_early"):
        argv.append("--stop-early")
    scn = {
        "files": files, "argv": argv, "behaviours": beh, "pre_tree": pre_tree,
        "index_rows": rows if rows or case.get("empty_index") else None,
        "unrelated": case.get("unrelated") or False, "case": case,
    }
    if case.get("symlink_out"):
        scn["symlink_out"] = True
    if case.get("outer_env"):
        # cond itself started from inside a task of another Conductor project (or with COND_* exported in the shell)
        scn["env"] = {"COND_OUT": "/outer/cond-out/outer.task", "COND_DEPS": "/outer/cond-out/d1.task:/outer/cond-out/d2.task",
                      "COND_NAME": "outer-task", "COND_SLOT": "7"}
    if case.get("git"):
        # two commits c1 <- c2 (HEAD)
        commits, head, refs = history_of(case)
        scn["git"] = {"commits": dict(commits), "head": head, "is_repo": True, "dirty": bool(case.get("dirty")), "refs": dict(refs)}
    return scn


class Summary:
    pass


NZ = re.compile(r"terminated with a non-zero error code \((\-?\d+)\)")


def summarize(obs):
    case = obs.scn["case"]
    g = [tuple(d) for d in case["g"]]
    n = len(g)
    pkgs = case.get("pkgs") or [""] * n
    ids = ["//%s:t%d" % (pkgs[i], i) for i in range(n)]
    idx = {s: i for i, s in enumerate(ids)}
    s = Summary()
    s.case, s.g, s.n, s.ids, s.idx = case, g, n, ids, idx
    s.kinds = case["kinds"]
    s.pars = case.get("pars") or [False] * n
    s.jobs = case.get("jobs", 1)
    s.starts = []      # (seq, node, 'proc'|'sync'|'launchfail')
    s.running_lines = []  # (seq, node, k, N)
    s.skips = []       # (seq, node, k, N)
    s.oks = []         # (seq, node)
    s.fails = []       # (seq, node)
    s.cached = []      # node
    s.spawns = []      # (seq, node, info, pid)
    s.exits = []       # (seq, node, status, pid, why)
    s.reaps = []       # (seq, node, who)
    s.killpg = []      # (seq, pgid, sig, running members)
    s.unknown = []
    pid2node = {}
    for seq, e in enumerate(obs.vk.log):
        k = e[0]
        if k == "out":
            line = e[1]
            m = driver.RUNNING.match(line)
            if m and m.group(1) in idx:
                s.running_lines.append((seq, idx[m.group(1)], int(m.group(2)), int(m.group(3))))
                continue
            m = driver.SKIPPING.match(line)
            if m and m.group(1) in idx:
                s.skips.append((seq, idx[m.group(1)], int(m.group(2)), int(m.group(3))))
                continue
            m = driver.OK.match(line)
            if m and m.group(1) in idx:
                s.oks.append((seq, idx[m.group(1)]))
                continue
            m = driver.FAILED.match(line)
            if m and m.group(1) in idx:
                s.fails.append((seq, idx[m.group(1)]))
                continue
            m = driver.CACHED.match(line)
            if m and m.group(1) in idx:
                s.cached.append(idx[m.group(1)])
                continue
        elif k == "spawn":
            node = idx.get(e[2])
            if node is None:
                s.unknown.append(e)
                continue
            pid2node[e[1]] = node
            s.spawns.append((seq, node, e[3], e[1]))
        elif k in ("exit", "killed"):
            if e[1] in pid2node:
                s.exits.append((seq, pid2node[e[1]], e[3], e[1], k))
        elif k == "reap":
            if e[1] in pid2node:
                s.reaps.append((seq, pid2node[e[1]], e[3]))
        elif k == "killpg":
            s.killpg.append((seq, e[1], e[2], e[3]))
        elif k == "launchfail":
            if e[1] in idx:
                s.starts.append((seq, idx[e[1]], "launchfail"))
    # starts: process tasks start at spawn; sync tasks (group/combine) at their "Running" line
    for seq, node, info, pid in s.spawns:
        s.starts.append((seq, node, "proc"))
    for seq, node, k, N in s.running_lines:
        if s.kinds[node] in ("group", "combine"):
            s.starts.append((seq, node, "sync"))
    s.starts.sort()
    s.report_failed, s.report_skipped = driver.parse_report(obs.res.out_text)
    s.exit = obs.res.exit
    s.exc = obs.res.exc
    s.fail_codes = {}
    # "  //:t1\n    Task '//:t1' terminated with a non-zero error code (11)."
    lines = obs.res.out_text.splitlines()
    for i, line in enumerate(lines):
        if line.startswith("  //") and not line.startswith("    ") and i + 1 < len(lines):
            m = NZ.search(lines[i + 1])
            if m and line.strip() in idx:
                s.fail_codes[idx[line.strip()]] = int(m.group(1))
    return s


def selected_version(case, k):
    """The version of node k the documented rule selects in this case (None = none usable)."""
    vs = cached_versions(case, k)
    if not vs:
        return None
    if case.get("git"):
        commits, head, _ = history_of(case)
        return ref.select_version(vs, "git", commits, head)
    return ref.select_version(vs, "nogit")


def effective_cached(case):
    """Nodes whose recorded versions satisfy the invocation (reference: ref.select_version / ref.at_least_rerun)."""
    cached = case.get("cached") or {}
    if isinstance(cached, list):
        cached = {str(i): None for i in cached}
    out = set()
    for k in cached:
        sel = selected_version(case, k)
        if sel is None:
            continue
        if case.get("at_least"):
            commits, head, refs = history_of(case)
            target = dict(refs, HEAD=head).get(case["at_least"], case["at_least"])
            if ref.at_least_rerun(sel, commits, target):
                continue
        out.add(int(k))
    return out


def expected(case):
    g = [tuple(d) for d in case["g"]]
    cached = effective_cached(case)
    need = ref.needed_set(g, cached, bool(case.get("again")))
    fails = {int(k) for k in (case.get("fails") or {})}
    oc = ref.outcomes(g, need, fails)
    return need, oc


# ------------------------------------------------------------------------------------------ monitors
def mon_order(s):
    """C01: every execution of every transitive dependency finished with status 0 before X starts."""
    v = []
    end_ok = {}   # node -> list of seq of successful ends
    ends = {}     # node -> list of (seq, ok)
    for seq, node, status, pid, why in s.exits:
        ends.setdefault(node, []).append((seq, status == 0))
    for seq, node in s.oks:
        if s.kinds[node] in ("group", "combine"):
            ends.setdefault(node, []).append((seq, True))
    for seq, node in s.fails:
        if s.kinds[node] in ("group", "combine"):
            ends.setdefault(node, []).append((seq, False))
    started = {}
    for seq, node, how in s.starts:
        started.setdefault(node, []).append(seq)
    planned = set(started) | {node for _, node, _, _ in s.skips}

    def linked(x, d):
        """x reaches d along declared dependencies through tasks that all have an operation in this invocation (executed or
        skipped).  If not, every path passes a task whose cached result pruned it - and everything below it - from the plan."""
        seen, stack = set(), [x]
        while stack:
            y = stack.pop()
            for z in s.g[y]:
                if z == d:
                    return True
                if z in planned and z not in seen:
                    seen.add(z)
                    stack.append(z)
        return False

    for node, seqs in started.items():
        for d in ref.transitive_deps(s.g, node):
            if d not in started:
                continue  # not executed in this invocation
            if not linked(node, d):
                # The statement still applies (d is executed in this invocation and node transitively depends on it), but this is
                # a separate, recorded finding: keyed apart so that it can never hide an ordering fault between linked tasks.
                for sx in seqs:
                    for sd in started[d]:
                        after = sorted(e for e in ends.get(d, []) if e[0] > sd)
                        if sd > sx or not after or after[0][0] > sx or not after[0][1]:
                            v.append(("order:only-through-cached-tasks",
                                      "%s started without waiting for the success of %s, which it depends on only through tasks satisfied "
                                      "by cached results (%s ran in this invocation for another dependent)" % (s.ids[node], s.ids[d], s.ids[d])))
                continue
            for sx in seqs:
                for sd in started[d]:
                    if sd > sx:
                        v.append(("order:dep-started-after-dependent",
                                  "%s (dependency of %s) was started after %s had started" % (s.ids[d], s.ids[node], s.ids[node])))
                    dends = [e for e in ends.get(d, [])]
                    # the execution of d that started at sd must have ended successfully before sx
                    after = sorted(e for e in dends if e[0] > sd)
                    if sd < sx:
                        if not after or after[0][0] > sx:
                            v.append(("order:dependent-started-before-dep-finished",
                                      "%s started while its dependency %s was still running" % (s.ids[node], s.ids[d])))
                        elif not after[0][1]:
                            v.append(("order:dependent-started-after-dep-failed",
                                      "%s started although its dependency %s did not exit 0" % (s.ids[node], s.ids[d])))
    return v


def mon_once(s, success_only=True):
    """C02: each needed task executes exactly once, nothing else executes, cached != executed, progress total."""
    v = []
    need, oc = expected(s.case)
    count = {}
    for seq, node, how in s.starts:
        count[node] = count.get(node, 0) + 1
    for node, c in count.items():
        if c > 1:
            v.append(("once:executed-twice", "%s was executed %d times in one invocation" % (s.ids[node], c)))
        if node not in need:
            v.append(("once:unneeded-executed", "%s was executed although it is not needed" % s.ids[node]))
    for e in s.unknown:
        v.append(("once:foreign-task", "a task outside the closure was spawned: %r" % (e[2],)))
    if success_only:
        for node in need:
            if count.get(node, 0) == 0:
                v.append(("once:needed-not-executed", "%s is needed but was not executed" % s.ids[node]))
    for node in set(s.cached):
        if node in count:
            v.append(("once:cached-and-executed", "%s reported as cached and executed" % s.ids[node]))
    totals = {N for _, _, _, N in s.running_lines} | {N for _, _, _, N in s.skips}
    executed = len(s.running_lines) + len(s.skips)
    if success_only and totals and totals != {executed}:
        v.append(("once:progress-total", "progress total %s but %d tasks were executed" % (sorted(totals), executed)))
    ks = sorted([k for _, _, k, _ in s.running_lines] + [k for _, _, k, _ in s.skips])
    if success_only and ks != list(range(1, executed + 1)):
        v.append(("once:progress-counter", "progress counters %s are not 1..%d" % (ks, executed)))
    return v


def mon_failure(s):
    """C03."""
    v = []
    case = s.case
    need, oc = expected(case)
    if s.exc is not None:
        v.append(("fail:internal-error", "cond run ended with %s: %s" % (type(s.exc).__name__, s.exc)))
        return v
    attempted = {node for _, node, _, _ in s.running_lines}
    spawned = {node for _, node, _, _ in s.spawns}
    skipped_lines = [node for _, node, _, _ in s.skips]
    any_failed = any(o == "failed" for o in oc.values())
    if not case.get("stop_early"):
        for node in need:
            o = oc[node]
            if o == "skipped":
                if node in attempted or node in spawned:
                    v.append(("fail:dependent-started", "%s depends on a failed task but was started" % s.ids[node]))
            else:
                if node not in attempted:
                    v.append(("fail:independent-not-run", "%s does not depend on a failed task but did not run" % s.ids[node]))
        exp_failed = sorted(s.ids[x] for x in need if oc[x] == "failed")
        exp_skipped = sorted(s.ids[x] for x in need if oc[x] == "skipped")
        if any_failed:
            if sorted(s.report_failed) != exp_failed:
                v.append(("fail:failed-list", "failed list %s, expected %s" % (sorted(s.report_failed), exp_failed)))
            if sorted(s.report_skipped) != exp_skipped:
                v.append(("fail:skipped-list", "skipped list %s, expected %s" % (sorted(s.report_skipped), exp_skipped)))
        if (s.exit == 0) != (not any_failed):
            v.append(("fail:exit-status", "exit status %r with failures=%s" % (s.exit, any_failed)))
    else:
        if not s.fails:
            if any_failed:
                v.append(("fail:stop-early-no-failure-seen", "a task must fail but no failure was reported"))
            if s.exit != 0 and not any_failed:
                v.append(("fail:exit-status", "exit status %r without failures" % (s.exit,)))
            return v
        first = s.fails[0][0]
        first_node = s.fails[0][1]
        for seq, node, info, pid in s.spawns:
            if seq > first:
                v.append(("fail:stop-early-started-after-failure", "%s was spawned after the first failure was observed" % s.ids[node]))
        for seq, node, k, N in s.running_lines:
            if seq > first:
                v.append(("fail:stop-early-started-after-failure", "%s was started after the first failure was observed" % s.ids[node]))
        # processes running at the moment of observation must be SIGTERMed
        running = {}
        for seq, node, info, pid in s.spawns:
            if seq < first:
                running[pid] = node
        for seq, node, status, pid, why in s.exits:
            if seq < first:
                running.pop(pid, None)
        termed = {pgid for _, pgid, sig, _ in s.killpg if sig == 15}
        for pid, node in running.items():
            if pid not in termed:
                v.append(("fail:stop-early-not-terminated", "%s was still running at the first failure and was not sent SIGTERM" % s.ids[node]))
        if s.exit == 0:
            v.append(("fail:exit-status", "exit status 0 although a task failed"))
        if s.ids[first_node] not in s.report_failed:
            v.append(("fail:failed-list", "first failed task %s not named in the report %s" % (s.ids[first_node], s.report_failed)))
        for name in s.report_failed:
            if name in s.idx and (s.idx[name] not in {n for _, n in s.fails}):
                v.append(("fail:failed-list", "%s named as failed but never reported failing" % name))
    return v


def mon_parallel(s):
    """C04."""
    v = []
    jobs = s.jobs
    live = {}  # pid -> (node, slot)
    events = []
    for seq, node, info, pid in s.spawns:
        events.append((seq, "spawn", node, pid, info))
    for seq, node, status, pid, why in s.exits:
        events.append((seq, "exit", node, pid, None))
    for seq, node, how in s.starts:
        if how == "sync":
            events.append((seq, "sync", node, None, None))
    events.sort(key=lambda e: e[0])
    for seq, k, node, pid, info in events:
        if k == "exit":
            live.pop(pid, None)
            continue
        if k == "sync":
            if live:
                v.append(("par:sync-while-running", "%s (not parallelizable) started while %s were running"
                          % (s.ids[node], sorted(s.ids[n] for n, _ in live.values()))))
            continue
        slot = info["slot"]
        live[pid] = (node, slot)
        if len(live) > jobs:
            v.append(("par:jobs-exceeded", "%d task processes running with --jobs %d" % (len(live), jobs)))
        nonpar = [n for n, _ in live.values() if not s.pars[n]]
        if nonpar and len(live) > 1:
            v.append(("par:sequential-not-exclusive", "%s is not parallelizable but ran concurrently with %s"
                      % (s.ids[nonpar[0]], sorted(s.ids[n] for n, _ in live.values() if n != nonpar[0]))))
        should_have = s.pars[node] and jobs > 1
        if should_have and slot is None:
            v.append(("par:slot-missing", "%s is parallelizable with --jobs %d but COND_SLOT is unset" % (s.ids[node], jobs)))
        if not should_have and slot is not None:
            v.append(("par:slot-unexpected", "%s has COND_SLOT=%s but is not parallelizable or jobs is 1" % (s.ids[node], slot)))
        if slot is not None:
            if not (slot.isdigit() and 0 <= int(slot) < jobs):
                v.append(("par:slot-range", "COND_SLOT=%s outside [0,%d)" % (slot, jobs)))
            same = [n for p, (n, sl) in live.items() if sl == slot and p != pid]
            if same:
                v.append(("par:slot-clash", "%s and %s run concurrently with the same COND_SLOT=%s"
                          % (s.ids[node], s.ids[same[0]], slot)))
    return v


def mon_termination(s, obs):
    """C09 (default mode only)."""
    v = []
    if s.exc is not None:
        kind = type(s.exc).__name__
        v.append(("term:%s" % kind.lower(), "cond run did not terminate normally: %s: %s" % (kind, s.exc)))
        return v
    need, oc = expected(s.case)
    stillrun = [p.key for p in obs.vk.procs.values() if p.state == "run" and not p.unrelated]
    if stillrun:
        v.append(("term:returned-with-running", "cond run returned while %s were still running" % stillrun))
    outcomes = {}
    for _, node in s.oks:
        outcomes.setdefault(node, []).append("ok")
    for _, node in s.fails:
        outcomes.setdefault(node, []).append("failed")
    for _, node, _, _ in s.skips:
        outcomes.setdefault(node, []).append("skipped")
    for node in need:
        o = outcomes.get(node, [])
        if len(o) != 1:
            v.append(("term:outcome-count", "%s has %d reported outcomes %s" % (s.ids[node], len(o), o)))
    # attribution: the status the kernel gave pid p is the status reported for p's task
    by_node = {}
    for seq, node, status, pid, why in s.exits:
        by_node.setdefault(node, []).append(status)
    for node, sts in by_node.items():
        if len(sts) != 1:
            continue
        st = sts[0]
        o = outcomes.get(node, [])
        if len(o) != 1:
            continue
        if (st == 0) != (o[0] == "ok"):
            v.append(("term:misattributed", "%s exited with wait status %d but was reported %s" % (s.ids[node], st, o[0])))
        if st != 0:
            code = os.WEXITSTATUS(st) if os.WIFEXITED(st) else os.WTERMSIG(st)
            got = s.fail_codes.get(node)
            if got is not None and got != code:
                v.append(("term:wrong-code", "%s exited with %d but %d was reported" % (s.ids[node], code, got)))
    return v


# ------------------------------------------------------------------------------------------ exploration
def terminal_signature(s):
    """Schedule-level observation: the order of starts/ends/outcome lines and reaper identities."""
    seqs = []
    for seq, node, how in s.starts:
        seqs.append((seq, "S", node, how))
    for seq, node, status, pid, why in s.exits:
        seqs.append((seq, "E", node, status))
    for seq, node, who in s.reaps:
        seqs.append((seq, "R", node, who))
    for seq, node in s.oks:
        seqs.append((seq, "ok", node, 0))
    for seq, node in s.fails:
        seqs.append((seq, "failed", node, 0))
    for seq, node, k, N in s.skips:
        seqs.append((seq, "skip", node, 0))
    seqs.sort()
    return [x[1:] for x in seqs] + [("exit", s.exit, type(s.exc).__name__ if s.exc else None)]


def explore_case(case, bound, monitors, max_exec=None, conform=False):
    """monitors: list of callables (summary, obs) -> [(key, what)].  Returns a run_item result dict.
    conform=True: every deviation-0 execution is additionally replayed against a real `cond run` process on the real
    kernel (vfw.conformance); any disagreement is a harness error (the model misrepresents the implementation)."""
    from . import explore
    scn = make_scenario(case)
    csig = explore.sig(case)
    out = {"evals": 0, "states": set(), "transitions": 0, "sigs": set(), "violations": [], "counters": {},
           "caps": [], "sample": None}
    seen_keys = set()

    def on_exec(obs):
        s = summarize(obs)
        out["evals"] += 1
        out["transitions"] += obs.vk.transitions
        for st in obs.vk.states:
            out["states"].add(explore.sig([csig, st]))
        tsig = terminal_signature(s)
        out["sigs"].add(explore.sig([csig, tsig]))
        if obs.cost > 0:
            out["counters"]["executions_with_deviations"] = out["counters"].get("executions_with_deviations", 0) + 1
        for mon in monitors:
            for key, what in mon(s, obs):
                if key in seen_keys:
                    continue
                seen_keys.add(key)
                out["violations"].append({"key": key, "what": what,
                                          "artefact": {"scenario": scn, "choices": list(obs.choices),
                                                       "observed": what,
                                                       "log": [list(map(str, e)) for e in obs.vk.log][-60:]}})
        if conform and obs.cost == 0:
            from . import conformance
            mism = conformance.replay_trace_on_real_kernel(scn, obs)
            if mism:
                raise RuntimeError("virtual kernel trace does not conform to the real kernel/implementation for case %r choices %r:\n%s"
                                   % (case, obs.choices, "\n".join(mism)))
            out["traces_validated"] = out.get("traces_validated", 0) + 1
        if out["sample"] is None:
            out["sample"] = {"argv": scn["argv"], "files": scn["files"], "fails": case.get("fails"),
                             "choices": list(obs.choices), "trace": [list(map(str, t)) for t in tsig][:40]}

    r = explore.explore(scn, bound, on_exec, max_executions=max_exec)
    if r["capped"]:
        out["caps"].append("max_executions=%d reached for a case at bound %d" % (max_exec, bound))
    out["counters"]["bound_%d_cases" % bound] = 1
    return out


def replay_case(artefact, monitors):
    from . import explore
    obs = explore.execute(artefact["scenario"], artefact["choices"], strict=True)
    s = summarize(obs)
    got = []
    for mon in monitors:
        got.extend(mon(s, obs))
    return got


# ------------------------------------------------------------------------------------------ case generators
def kind_assignments(g, mode):
    n = len(g)
    import itertools
    if mode == "all4":
        for ks in itertools.product(("cmd", "exp", "group", "combine"), repeat=n):
            yield list(ks)
    elif mode == "proc":
        for ks in itertools.product(("cmd", "exp"), repeat=n):
            yield list(ks)
    elif mode == "basic":
        yield ["cmd"] * n
        yield ["exp"] * n
        if n >= 2:
            yield ["combine"] + ["exp"] * (n - 1)
            yield ["group"] + ["cmd"] * (n - 1)
        if n >= 3:
            for mid in range(1, n):
                if g[mid]:
                    for k in ("group", "combine"):
                        ks = ["cmd", "exp"] * n
                        ks = ks[:n]
                        ks[mid] = k
                        yield ks
    else:
        raise ValueError(mode)


def par_assignments(kinds, jobs, mode):
    import itertools
    n = len(kinds)
    proc = [i for i in range(n) if kinds[i] in ("cmd", "exp")]
    if mode == "all":
        for bits in itertools.product((False, True), repeat=len(proc)):
            pars = [False] * n
            for i, b in zip(proc, bits):
                pars[i] = b
            yield pars
    elif mode == "uniform":
        yield [False] * n
        if proc:
            yield [i in proc for i in range(n)]
    elif mode == "par":
        yield [i in proc for i in range(n)]


def graphs_upto(ns, orders=True, shared_only_from=None):
    for n in ns:
        for shape in graphs.dag_shapes(n):
            if shared_only_from is not None and n >= shared_only_from and not graphs.has_shared_dep(shape):
                continue
            if orders:
                for g in graphs.listing_orders(shape):
                    yield [list(d) for d in g]
            else:
                yield [list(d) for d in shape]


def conformance_cases(tier, kindsets=None, with_fail=True):
    """A fixed family of cases whose deviation-0 traces are replayed on the real kernel."""
    out = []
    for g in graphs_upto((1, 2, 3)):
        n = len(g)
        for kinds in (kindsets or (["cmd"] * n, ["exp"] * n)):
            kinds = list(kinds)[:n] if len(kinds) >= n else (list(kinds) * n)[:n]
            for jobs in ((1, 2) if n < 3 else (2, 3)):
                pars = [k in ("cmd", "exp") and jobs > 1 for k in kinds]
                out.append({"g": g, "kinds": kinds, "pars": pars, "jobs": jobs, "fails": {}})
                if with_fail and n >= 2:
                    out.append({"g": g, "kinds": kinds, "pars": pars, "jobs": jobs, "fails": {str(n - 1): ["exit", 3]}})
                    if kinds[1] in ("cmd", "exp"):
                        out.append({"g": g, "kinds": kinds, "pars": pars, "jobs": jobs, "fails": {"1": ["signal", 9]}})
    return out
