"""
History engine (E6): run real commands in-process on an existing project directory, snapshot / restore
directory states, canonical digests.
"""
import hashlib
import os
import shutil
import stat

from . import driver, explore, fakegit, vk as vkmod


def run(root, argv, cwd=".", behaviours=None, clock=None, git=None, chooser=None, tracer=None, env=None):
    """Run `cond argv` on the project at root.  `run` sub-commands go through the virtual kernel; every other
    sub-command runs with real processes (only `tar`)."""
    git = git if git is not None else fakegit.NO_GIT
    clock = clock if clock is not None else driver.Clock()
    if argv and argv[0] == "run":
        vk = vkmod.VK(chooser=chooser, behaviours=explore.behaviours_from_json(behaviours or {}), project_root=root)
        res = driver.run_cli(argv, os.path.join(root, cwd), vk=vk, git=git, clock=clock, tracer=tracer, env=env)
    else:
        res = driver.run_cli(argv, os.path.join(root, cwd), vk=None, git=git, clock=clock, tracer=tracer, env=env)
    return res


def tree(root, skip=(), scrub=None):
    """{relpath: ('d',) | ('f', sha1) | ('l', target)} for everything under root.  `scrub`: byte string (the
    worker-specific scratch path) replaced in file contents before hashing, so digests are worker independent."""
    out = {}
    root = os.path.abspath(root)
    for d, dirs, files in os.walk(root):
        rel_d = os.path.relpath(d, root)
        for name in list(dirs):
            p = os.path.join(d, name)
            rel = os.path.normpath(os.path.join(rel_d, name))
            if rel in skip:
                dirs.remove(name)
                continue
            if os.path.islink(p):
                out[rel] = ("l", os.readlink(p))
                dirs.remove(name)
            else:
                out[rel] = ("d",)
        for name in files:
            p = os.path.join(d, name)
            rel = os.path.normpath(os.path.join(rel_d, name))
            if rel in skip:
                continue
            if os.path.islink(p):
                out[rel] = ("l", os.readlink(p))
            else:
                with open(p, "rb") as f:
                    data = f.read()
                if scrub:
                    data = data.replace(scrub, b"<SCRATCH>")
                out[rel] = ("f", hashlib.sha1(data).hexdigest())
    return out


def subtree(t, prefix):
    prefix = os.path.normpath(prefix)
    return {k[len(prefix) + 1:]: v for k, v in t.items() if k.startswith(prefix + os.sep)}


def digest(t):
    return explore.sig(sorted((k, list(v)) for k, v in t.items()))


def rows(root):
    return driver.read_index(os.path.join(root, "cond-out", "version_index.sqlite"))


def snapshot(root, dest):
    shutil.rmtree(dest, ignore_errors=True)
    shutil.copytree(root, dest, symlinks=True)
    return dest


def restore_snapshot(snap, root):
    shutil.rmtree(root, ignore_errors=True)
    shutil.copytree(snap, root, symlinks=True)


SQLITE_NAMES = ("version_index.sqlite", "version_index.sqlite-journal", "version_index.sqlite-wal", "version_index.sqlite-shm")


def data_tree(root):
    """cond-out tree without the sqlite files (their bytes are not canonical)."""
    scrub = driver.scratch_root().encode()
    t = tree(os.path.join(root, "cond-out"), scrub=scrub) if os.path.isdir(os.path.join(root, "cond-out")) else {}
    return {k: v for k, v in t.items() if os.path.basename(k) not in SQLITE_NAMES}
