#!/usr/bin/env python3
"""Keep a confirmed seeded change: copy patch/demo/notes from a sub-agent's directory into /verif/seeded/<name>/ with meta.json
built from seedtest's result.json.   seed_keep.py <srcdir> <name> <property> "<summary>" "<needs>" """
import json, os, shutil, sys
src, name, prop, summary, needs = sys.argv[1:6]
dst = os.path.join("/verif/seeded", name)
os.makedirs(dst, exist_ok=True)
for f in ("patch.diff", "demo.py", "demo.sh", "notes.md"):
    p = os.path.join(src, f)
    if os.path.exists(p):
        shutil.copy(p, os.path.join(dst, f))
res = json.load(open(os.path.join(src, "result.json")))
det = {c: (r["detail"][0] if r["detail"] else (r["lines"][0] if r["lines"] else "")) for c, r in res["checks"].items() if r["exit"] == 1}
meta = {"property": prop, "summary": summary, "needs_to_manifest": needs, "confirmed": res["confirm"],
        "checks_run": {c: r["exit"] for c, r in res["checks"].items()}, "detected_by": det}
extra = os.path.join(dst, "meta.json")
if os.path.exists(extra):
    old = json.load(open(extra))
    for k in ("history",):
        if k in old:
            meta[k] = old[k]
json.dump(meta, open(extra, "w"), indent=1)
print(json.dumps(meta, indent=1)[:1200])
