#!/bin/bash
# Offline setup: nothing to build (pure Python run by /venv/bin/python against /repo/src).  Sanity checks only.
set -e
cd "$(dirname "$0")/.."
/venv/bin/python -c "import sys; sys.path.insert(0,'/repo/src'); import conductor, tomli; print('conductor', conductor.__version__, 'from', conductor.__file__)"
mkdir -p evidence replays
echo setup ok
