#!/usr/bin/env python3
"""Print a markdown table of what the last quick run of every check covered (from evidence/*.json)."""
import glob, json
print("| id | level | evaluations | distinct non-trivial | states | transitions | traces validated against the implementation | wall s |")
print("|---|---|---|---|---|---|---|---|")
for p in sorted(glob.glob("/verif/evidence/C*.json")):
    e = json.load(open(p)); c = e["coverage"]
    print("| %s | %s | %s | %s | %s | %s | %s | %s |" % (e["property_id"], e["level"], c.get("evaluations"), c.get("distinct_nontrivial"),
          c.get("states", "-"), c.get("transitions", "-"), c.get("traces_validated_against_impl", "-"), e["wall_s"]))
