#!/usr/bin/env python3
"""Generate /verif/MANIFEST.json from the table below (kept next to the checks so the two cannot drift)."""
import json
import os
import subprocess

ROOT = os.path.dirname(os.path.dirname(os.path.abspath(__file__)))

CHECKS = {
    "C06": ("fault_enumeration",
            "exhaustive enumeration of task outcomes x git states under the virtual kernel, and of every crash point (distinct on-disk state between two Python lines) of the last command of short histories with chained restart",
            "Outcome part: rows added = experiments whose process exited 0, with HEAD hash and dirty flag, over all small graphs x failing "
            "subsets x completion orders. Crash part: every distinct on-disk state during run/archive/restore/gc (copied = what survives "
            "kill -9) satisfies 'row => directory + DONE marker + args/options records' after SQLite recovery, and again after one more command. "
            "Abort part: ConductorAbort injected at every executed line, eval-breaker instruction and after every pure C call of a cond run: "
            "every committed row belongs to a process that exited 0 and keeps its directory and finished output.",
            "Trusted: SQLite atomic commit, kernel rename/mkdir atomicity; line granularity in Conductor/shutil/json frames.",
            "DESIGN.md §4 C06, §2 E5"),
    "C10": ("exploration",
            "exhaustive enumeration of byte strings x all short-read splits through the real tee code, chunk interleavings in both record modes under the virtual kernel, record values, plus real-process runs",
            "All byte strings <=5 (6) over 4 symbols x all 2^(n-1) read1 splits through the real TeeProcessor; all interleavings of <=2 chunks "
            "per stream (incl. > pipe buffer) in sequential and slot mode; all args/options records; real cond runs with real pipes up to 1 MiB.",
            "'Any length' covered up to the listed sizes only.",
            "DESIGN.md §4 C10"),
    "C16": ("fault_enumeration",
            "exhaustive fault injection: ConductorAbort raised at every executed line of Conductor code for every deviation-0 schedule of each scenario, under the virtual kernel",
            "For each scenario and completion order the run is repeated once per line event (~3-5k points) with the abort raised at that "
            "line, as a Python signal handler would; the kernel's process table at the injection point decides which groups must receive "
            "SIGTERM; exit status/message and index rows are checked.",
            "Granularities: executed lines (all scenarios); eval-breaker instructions and the instruction after every pure C call (first eight scenarios). One signal per run; finalizer frames excluded.",
            "DESIGN.md §4 C16, §2 E5"),
    "C08": ("model_checking",
            "exhaustive exploration of all command histories up to a depth over {run outcomes, SIGINT, restores, gc} x clock steps, each transition the real command on the real directory state",
            "All histories of depth <=3 (4) over 8 commands x 3 clock steps are executed; freshness invariants are evaluated at every "
            "experiment spawn (observed at the virtual process layer) and recorded directories are digest-compared across every command. "
            "Interrupts: ConductorAbort injected at every line / eval-breaker instruction / after every pure C call of a cond run never deletes a recorded directory.",
            "Trusted: virtual clock/kernel seams. Bounds: depth <=3 (4), 2 experiments.",
            "DESIGN.md §4 C08"),
    "C12": ("fault_enumeration",
            "exhaustive enumeration of single corruptions x prior states, and of every crash point (on-disk state between two Python lines) of restore with chained restart",
            "Every single corruption of every archive in every prior project state, and every distinct on-disk state that exists between two "
            "executed Python lines of cond restore (copied = what survives kill -9), checked after ordinary SQLite recovery and used as start "
            "state for a second restore.",
            "Trusted: SQLite atomic commit, kernel rename/mkdir atomicity, external tar (points inside one C call are not cut).",
            "DESIGN.md §4 C12, §2 E5"),
    "C18": ("model_checking",
            "exhaustive enumeration of combine scenarios (dependency kinds x package placement x cache x pre-existing entry) x run histories on real directories",
            "For every scenario a 3-run history (default, --again, default) is executed under the virtual kernel; link targets are resolved on "
            "disk and compared with the COND_OUT each dependency was spawned with and with a sibling's COND_DEPS.",
            "Trusted: virtual kernel seam. Bounds: <=3 dependencies, nesting <=2, 3 runs.",
            "DESIGN.md §4 C18"),
    "C11": ("model_checking",
            "explicit-state exploration of run/archive/clean/restore histories on real directories with the real commands (real tar), canonical state = rows + Merkle digest",
            "From every project state reached by run histories (outcomes x git states) every archive variant is taken and restored into an "
            "emptied project and into a project holding other versions; rows (ids, commit, dirty), tar members and byte-exact trees are compared "
            "with the reference selection; archive must leave the source untouched.",
            "Trusted: external tar; reference selection from the docs. Bounds: run histories depth <=2 (3), 3 experiments in 3 nested packages.",
            "DESIGN.md §4 C11"),
    "C13": ("exploration",
            "exhaustive enumeration of cond-out trees from a grammar (all subsets of entry kinds) and of short command histories, against an independent gc expectation",
            "All 2^11 root-level subsets x nested-package variants and all 2^6 nested subsets, plus all histories of <=3 commands, each followed by "
            "gc / --dry-run / -v / -n -v; deleted set, untouched remainder (byte-identical) and printed listing compared with the expectation.",
            "Trusted: reference expectation. Symlinked dirs and look-alike parents with task-like children are outside the alphabet.",
            "DESIGN.md §4 C13"),
    "C17": ("exploration",
            "exhaustive enumeration of sub-commands x project states x invoking directories with a differential oracle against the project root",
            "Every sub-command/flag combination in every project state from every directory under the root must give the same exit status, "
            "cond-out digest, rows and (path-normalised) output as from the root; nested-project and outside-project discovery.",
            "Trusted: path arguments absolute. Bound: 7 directories, 5 states, 23 command lines.",
            "DESIGN.md §4 C17"),
    "C05": ("model_checking",
            "exhaustive enumeration of all small commit-DAG x version-set x mode x flag states through the real selection code on a real SQLite index with a fake git that is conformance-checked against real git",
            "All commit DAGs <=3 (4) commits x HEAD x <=3 versions x git modes x flags: the real RunExperiment/VersionIndex/Git code selects; "
            "the documented rule is the oracle; end-to-end via cond where / cond run / COND_DEPS; every fake-git answer used is compared "
            "with real git on real repositories (traces_validated_against_impl).",
            "Trusted: reference rule written from the docs. Bounds: <=4 commits, <=3 versions per task.",
            "DESIGN.md §4 C05, §3"),
    "C07": ("model_checking",
            "exhaustive enumeration of graphs x package nestings x cache states x argument alphabets; every spawn at the virtual process layer compared with a reference contract",
            "Every spawn (argv, shell, cwd, COND_NAME, COND_OUT, COND_DEPS) of every enumerated scenario is compared with the reference "
            "contract, dependents' COND_DEPS with the spawn-time COND_OUT of deps that ran, and conductor.lib is evaluated under that exact "
            "environment.",
            "Trusted: observation at the Popen boundary (bound to real bash by the conformance check). Bounds: <=3 tasks, nesting <=2, args/options <=2 entries.",
            "DESIGN.md §4 C07"),
    "C14": ("exploration",
            "exhaustive enumeration of all ordered dependency graphs on <=3 names (+dangling/duplicate variants) against a reachability/cycle reference",
            "Every directed graph on <=3 task names as ordered dep lists, every target, 1-2 COND files, through the real TaskIndex, "
            "end-to-end through cond run / --check under the virtual kernel (no spawn on error), and through whole-project validation in "
            "every definition order.",
            "Trusted: reference graph algorithms (DFS colouring). Bound: n<=3 exhaustively (n=4 edge sets in thorough).",
            "DESIGN.md §4 C14"),
    "C15": ("exploration",
            "deviation-bounded enumeration (all single and pair deviations) of constructor arguments against a reference schema validator",
            "All single/pair deviations of every documented constructor's parameters from a typed alphabet plus Python-error / include "
            "cases, each through cond run --check and cond run in-process; acceptance must equal the reference validator and rejections "
            "must be clean (ERROR:, file named, no traceback, nothing executed).",
            "Trusted: reference validator written from the docs. Bound: <=2 simultaneous deviations; listed alphabet.",
            "DESIGN.md §4 C15"),
    "C19": ("translation_validation",
            "exhaustive enumeration of group definitions, each compared with an independently produced explicit expansion (load graph + execution)",
            "Every group definition with <=3 instances over the parameter alphabet is expanded by an independent reference expander; both "
            "forms are loaded by the real TaskIndex and (<=2 instances) executed under the virtual kernel; graphs, spawn traces, output and "
            "trees must be identical; accept/reject must agree.",
            "Trusted: the reference expander (docs example). Bound: <=3 instances, 2-value alphabets.",
            "DESIGN.md §4 C19"),
    "C20": ("exploration",
            "exhaustive enumeration of all strings up to a length bound against a hand-written recogniser",
            "All 1.9M (21M thorough) strings of length <=6 (7) over an 11-symbol alphabet through is_name_valid/from_str/from_relative_str "
            "vs a hand-written recogniser; round trip of every accepted identifier; ':name' resolution via TaskIndex; pairwise distinct "
            "output directories via conductor.lib.path.where.",
            "Trusted: the recogniser (no regex). Bound: length <=6/7, stated alphabet; trailing '/' before ':' is don't-care.",
            "DESIGN.md §4 C20"),
    "C01": ("model_checking",
            "stateless deviation-bounded exploration of the real planner+executor under a virtual kernel; order monitor on the kernel event log",
            "For every small task graph (all shapes, listing orders, kinds, parallelizable flags, jobs) every completion order and "
            "bounded exit-batching deviation is executed on the real planner/executor; the monitor works on spawn/exit events of the "
            "process layer, not on Conductor's bookkeeping.",
            "Trusted: virtual kernel rules (conformance-checked against Linux). Bounds: <=3 tasks all kinds, 4 tasks shared-dep shapes "
            "(all shapes + 5 tasks in thorough), jobs<=3, deviations<=1 (2).",
            "DESIGN.md §4 C01"),
    "C02": ("model_checking",
            "exhaustive enumeration of graphs x cache states x flags, each run on the real planner/executor under the virtual kernel, against a reference needed-set",
            "All graphs x listing orders x kinds x cache states x {default,--again,--at-least} are executed; spawn/start multiset must equal "
            "the reference needed set exactly once each.",
            "Trusted: fake git (conformance-checked against git 2.39 in C05), reference needed-set written from the docs. Bounds: <=3 tasks "
            "all kinds, 4 tasks selected kinds.",
            "DESIGN.md §4 C02"),
    "C03": ("model_checking",
            "exhaustive enumeration of failing subsets x failure kinds x completion orders under the virtual kernel against a reference outcome function",
            "Every subset of failing tasks with each failure kind (exit code, signal, launch OSError, combine conflict) is explored over "
            "all completion orders, default and --stop-early.",
            "Trusted: virtual kernel; --stop-early oracle limited to the statement's clauses. Bounds: <=3 (4) tasks, jobs<=3, deviations<=1 on small graphs.",
            "DESIGN.md §4 C03"),
    "C04": ("model_checking",
            "state invariant evaluated at every spawn/sync-start of every interleaving explored under the virtual kernel",
            "All parallelizable assignments x kinds x JOBS x completion interleavings of all graphs <=4 tasks (+ wide 5-task shapes); "
            "the invariant is evaluated on the live-process set of the kernel at each start.",
            "Trusted: virtual kernel. Bounds: <=4 tasks (5 for wide shapes), JOBS<=3 (4), deviations<=1 (2) for n<=3.",
            "DESIGN.md §4 C04"),
    # id: (category, technique, level text, level note, design ref)
    "C09": ("model_checking",
            "stateless deviation-bounded exploration of the real executor + real Popen lifecycle under a virtual kernel",
            "Every completion order and every exit batching / SIGCHLD delivery point up to the deviation bound is executed "
            "against the real Executor, SigchldHelper and CPython Popen code for all small task graphs; on each execution "
            "termination (no deadlock state reachable), exactly-one-outcome and exit-status attribution are checked.",
            "Trusted: the virtual kernel's process/signal rules (validated against Linux by the conformance check), CPython 3.12 "
            "signal delivery timing (handler runs no later than right after the interrupted C call). Bounds: graphs <=3 (4) tasks, "
            "jobs <=3, deviations <=2 (3).",
            "DESIGN.md §4 C09, §2 E2"),
}

NOT_YET = {}


def main():
    props = [json.loads(l) for l in open(os.path.join(ROOT, "properties.jsonl"))]
    hooks_commits = []
    checks = []
    na = []
    for p in props:
        pid = p["id"]
        if pid in CHECKS and os.path.exists(os.path.join(ROOT, "vfw", "checks", pid.lower() + ".py")):
            cat, tech, text, note, ref = CHECKS[pid]
            checks.append({
                "property_id": pid,
                "quick_cmd": "./check %s --tier quick" % pid,
                "thorough_cmd": "./check %s --tier thorough" % pid,
                "evidence_file": "evidence/%s.json" % pid,
                "replay_cmd_template": "./check %s --replay {path}" % pid,
                "engine": "vfw",
                "level_claimed": {"category": cat, "text": text, "design_ref": ref},
                "level_note": note,
                "technique": tech,
            })
        else:
            na.append({"property_id": pid,
                       "reason": NOT_YET.get(pid, "check not built yet in this session (planned: see DESIGN.md §4); nothing is claimed for it")})
    manifest = {
        "version": 1,
        "setup_cmd": "./tools/setup.sh",
        "hooks": {
            "guard": "CONDUCTOR_VERIF",
            "enable": "no source hooks exist: all seams are monkey-patched module globals installed by vfw/driver.py at run time "
                      "(CONDUCTOR_VERIF=1 is exported by ./check only as a marker)",
            "baseline_off_cmd": "/verif/tools/baseline.py",
            "source_commits": hooks_commits,
            "add_only": True,
        },
        "engines": [
            {"name": "vfw", "path": "vfw/", "serves_properties": [c["property_id"] for c in checks],
             "kind_free_text": "hand-written explicit-state / stateless explorer in Python driving the real Conductor code in-process "
                               "under a virtual kernel, fake git, virtual clock, line-event injector and history BFS"},
        ],
        "checks": checks,
        "not_applicable": na,
        "notes": "Checks import Conductor live from /repo/src (editable install), so they always run against the current working tree. "
                 "Genuine defects found are recorded in known_findings.json (fixed entries name the fix: commit in /repo; one entry has status known: C01 order:only-through-cached-tasks, printed as KNOWN-FINDING, see DESIGN 10.3b and findings/).",
    }
    with open(os.path.join(ROOT, "MANIFEST.json"), "w") as f:
        json.dump(manifest, f, indent=1)
    print("MANIFEST.json: %d checks, %d not claimed" % (len(checks), len(na)))


if __name__ == "__main__":
    main()
