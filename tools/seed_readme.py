#!/usr/bin/env python3
"""Generate /verif/seeded/README.md from seeded/*/meta.json."""
import glob, json, os
rows = []
for m in sorted(glob.glob("/verif/seeded/*/meta.json")):
    d = json.load(open(m))
    name = os.path.basename(os.path.dirname(m))
    det = ", ".join("%s (`%s`)" % (c, (v.split("  ")[0] if v else "")[:60]) for c, v in sorted(d.get("detected_by", {}).items())) or "**none**"
    rows.append("| %s | %s | %s | %s | %s | %s |" % (name, d["property"], d["summary"].replace("|", "/"), d["needs_to_manifest"].replace("|", "/"), det,
                                                    d.get("history", "").replace("|", "/")))
with open("/verif/seeded/README.md", "w") as f:
    f.write("# Seeded property-breaking changes\n\nEach directory holds `patch.diff` (applies to /repo HEAD), the author's demonstration, `notes.md` and `meta.json` "
            "(what was run to confirm it: 37/37 baseline with the change, demo fails with / passes without).\n"
            "Changes were written by independent sub-agents that saw only the property text. `detected by` lists the checks (quick tier unless noted) that exit 1 "
            "with the change applied to /repo; `history` says whether a check had to be strengthened first.\n\n"
            "| seed | property | change | needs to manifest | detected by | history |\n|---|---|---|---|---|---|\n" + "\n".join(rows) + "\n")
print(len(rows), "seeds")
