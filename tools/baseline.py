#!/usr/bin/env python3
"""Run the repository's pinned baseline (guard off) and compare with /root/.vp/BASELINE.json stable_pass."""
import json, os, subprocess, sys, tempfile, xml.etree.ElementTree as ET
base = json.load(open("/root/.vp/BASELINE.json"))
env = dict(os.environ)
env.pop("CONDUCTOR_VERIF", None)
with tempfile.TemporaryDirectory(dir="/dev/shm") as d:
    out = os.path.join(d, "junit.xml")
    subprocess.run(["/venv/bin/python", "-m", "pytest", "-ra", "-q", "-p", "no:cacheprovider", "--timeout=900",
                    "--continue-on-collection-errors", "--junitxml=" + out], cwd="/repo", env=env,
                   stdout=subprocess.DEVNULL, stderr=subprocess.DEVNULL)
    passed = set()
    for tc in ET.parse(out).getroot().iter("testcase"):
        if not any(c.tag in ("failure", "error", "skipped") for c in tc):
            passed.add("%s::%s" % (tc.get("classname"), tc.get("name")))
missing = [t for t in base["stable_pass"] if t not in passed]
print("baseline: %d/%d stable tests pass (%d passed in total)" % (len(base["stable_pass"]) - len(missing), len(base["stable_pass"]), len(passed)))
for t in missing:
    print("  MISSING", t)
sys.exit(1 if missing else 0)
