#!/usr/bin/env python3
"""
Confirm a candidate property-breaking change and run the checks against it.

  seedtest.py <dir with patch.diff + demo.py|demo.sh> [--checks C01,C09 | --all] [--tier quick] [--skip-confirm] [--in-repo]

1. scratch worktree of /repo (outside /repo and /verif): apply the patch, the 37 baseline tests must pass, the demo
   must fail; without the patch the demo must pass.
2. run the selected checks against the change: by default in the scratch worktree (VFW_REPO=<worktree>, so several seeds can
   be examined in parallel); with --in-repo the patch is applied to /repo itself and ALWAYS undone (git checkout -- .).
The worktree is removed at the end.  Writes <dir>/result.json.
"""
import argparse
import json
import os
import subprocess
import sys
import time

ap = argparse.ArgumentParser()
ap.add_argument("dir")
ap.add_argument("--checks", default="")
ap.add_argument("--all", action="store_true")
ap.add_argument("--tier", default="quick")
ap.add_argument("--skip-confirm", action="store_true")
ap.add_argument("--in-repo", action="store_true")
ap.add_argument("--jobs", default="")
ap.add_argument("--rev", default="HEAD", help="repository commit the patch was written against (default HEAD)")
args = ap.parse_args()
d = os.path.abspath(args.dir)
patch = os.path.join(d, "patch.diff")
demo = os.path.join(d, "demo.py") if os.path.exists(os.path.join(d, "demo.py")) else os.path.join(d, "demo.sh")
res = {"dir": d, "confirm": None, "checks": {}}
if os.path.exists(os.path.join(d, "result.json")):
    try:
        old = json.load(open(os.path.join(d, "result.json")))
        res["confirm"] = old.get("confirm")
        res["checks"] = old.get("checks", {})
    except ValueError:
        pass


def sh(cmd, **kw):
    return subprocess.run(cmd, shell=isinstance(cmd, str), capture_output=True, text=True, **kw)


def run_demo(repo):
    cmd = ["/venv/bin/python", demo, repo] if demo.endswith(".py") else ["bash", demo, repo]
    env = dict(os.environ, PYTHONPATH=repo + "/src")
    try:
        p = subprocess.run(cmd, capture_output=True, text=True, timeout=600, env=env)
        return p.returncode, (p.stdout + p.stderr)[-600:]
    except subprocess.TimeoutExpired:
        return "timeout", ""


def run_checks(checks, env):
    for c in checks:
        t0 = time.time()
        cmd = ["./check", c, "--tier", args.tier, "--no-evidence"] + (["--jobs", args.jobs] if args.jobs else [])
        p = sh(cmd, cwd=os.environ.get("VFW_VERIF_DIR", "/verif"), env=env)
        viol = [l for l in p.stdout.splitlines() if l.startswith("VIOLATION") or l.startswith("HARNESS") or l.startswith("KNOWN")]
        detail = [l.strip()[:300] for l in p.stdout.splitlines() if l.startswith("  ") and "[" in l][:4]
        res["checks"][c] = {"exit": p.returncode, "lines": viol[:6], "detail": detail, "wall": round(time.time() - t0, 1), "tier": args.tier}
        print("%s exit=%d %.0fs %s" % (c, p.returncode, time.time() - t0, (detail[0] if detail else (viol[0] if viol else ""))[:220]), flush=True)


checks = ["C%02d" % i for i in range(1, 21)] if args.all else [c for c in args.checks.split(",") if c]
wt = "/tmp/seedwt-%d" % os.getpid()
sh(["git", "-C", "/repo", "worktree", "add", "-q", "--detach", wt, args.rev])
res["rev"] = sh(["git", "-C", wt, "rev-parse", "--short", "HEAD"]).stdout.strip()
try:
    a = sh(["git", "-C", wt, "apply", patch])
    if a.returncode != 0:
        res["confirm"] = {"ok": False, "why": "patch does not apply to /repo HEAD: " + a.stderr[-300:]}
        print(res["confirm"])
        sys.exit(2)
    if not args.skip_confirm:
        b = sh(["/venv/bin/python", "/tmp/mut/baseline.py", wt])
        base_ok = "37/37" in b.stdout
        rc_with, out_with = run_demo(wt)
        sh(["git", "-C", wt, "checkout", "--", "."])
        rc_without, out_without = run_demo(wt)
        sh(["git", "-C", wt, "apply", patch])
        res["confirm"] = {"ok": bool(base_ok and rc_with not in (0,) and rc_without == 0), "baseline": b.stdout.strip(),
                          "demo_with_change": rc_with, "demo_without_change": rc_without, "demo_output_with": out_with[-300:]}
        print("confirm:", json.dumps(res["confirm"])[:500], flush=True)
    if checks and not args.in_repo:
        run_checks(checks, dict(os.environ, VFW_REPO=wt))
finally:
    sh(["git", "-C", "/repo", "worktree", "remove", "--force", wt])

if checks and args.in_repo:
    st = sh(["git", "-C", "/repo", "status", "--porcelain"]).stdout.strip()
    if st:
        print("refusing: /repo has uncommitted changes:\n" + st)
        sys.exit(2)
    a = sh(["git", "-C", "/repo", "apply", patch])
    if a.returncode != 0:
        print("patch does not apply to /repo:", a.stderr)
        sys.exit(2)
    try:
        run_checks(checks, dict(os.environ))
    finally:
        sh(["git", "-C", "/repo", "checkout", "--", "."])
        sh(["git", "-C", "/repo", "clean", "-fdq", "src"])
with open(os.path.join(d, "result.json"), "w") as f:
    json.dump(res, f, indent=1)
